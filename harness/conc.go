package harness

import (
	"bytes"
	"fmt"
	"os"
	"sort"
	"strings"
	"testing"
	"testing/synctest"
	"time"

	"github.com/akrylysov/pogreb"
	"verif.local/sim/sched"
)

// HistEv is one completed (or, on deadlock, pending) API call of a concurrent run.
type HistEv struct {
	STask int // scheduler task id
	Task  int
	Op    Op
	Inv   int64
	Ret   int64 // 0 = never returned
	Val   []byte
	IsNil bool
	Bool  bool
	N     int
	Err   string
	Pairs [][2][]byte // full scan: pairs returned, in order
	ScanInv []int64   // per Next call
	ScanRet []int64
}

type concOpts struct {
	allowErrAfterClose bool // C10: operations may fail once Close has been invoked
	finalReads         bool
	journal            bool
	backupDir          string
	// afterJoin runs on the main task once every client has finished, before the final reads and Close
	afterJoin func(cr *concResult, sim *sched.Sim) *Violation
}

type concResult struct {
	env      *Env
	sim      *sched.Sim
	hist     []*HistEv
	v        *Violation
	leak     string
	closedBy int // task that called Close first (-1 = main at the end)
	closeInv int64
	closeRet int64
	stamps   []int64 // stamp of every journal entry
	retained []retained
	preload  int // number of ops main executed before spawning clients
	initial  *Image // the disk the run started from (RecoverFirst), nil = empty
}

func (cr *concResult) retain(b []byte, what string) {
	if cap(b) == 0 || len(cr.retained) >= 200 {
		return
	}
	cr.retained = append(cr.retained, retained{live: b, snap: append([]byte(nil), b...), what: what})
}

// checkRetained verifies the slices handed out during the run (C14).
func (cr *concResult) checkRetained(when string) *Violation {
	for _, r := range cr.retained {
		if !bytes.Equal(r.live, r.snap) {
			return violf("returned-slice-changed", "slice returned by %s changed %s: was %s now %s", r.what, when, showVal(r.snap), showVal(r.live))
		}
		if cr.env.FS.Overlaps(r.live[:cap(r.live)]) {
			return violf("returned-slice-aliases-file", "slice returned by %s points into a file buffer (%s)", r.what, when)
		}
	}
	return nil
}

// runBubble runs f inside a synctest bubble and returns synctest's deadlock/leak panic message.
func runBubble(t *testing.T, f func()) (msg string) {
	defer func() {
		if r := recover(); r != nil {
			msg = fmt.Sprint(r)
		}
	}()
	synctest.Test(t, func(t *testing.T) { f() })
	return ""
}

func isBusy(err error) bool { return err != nil && strings.Contains(err.Error(), "database is busy") }

// concExec runs the plan's client tasks concurrently under the deterministic scheduler.
func concExec(t *testing.T, p *Plan, co concOpts) *concResult {
	cr := &concResult{closedBy: -1}
	keys := p.KeyBytes()
	var initial *Image
	if p.Cfg.RecoverFirst && len(p.Epochs0()) > 0 {
		// an earlier session: the preload, then the process dies (no Close)
		e0 := NewEnv(p.Cfg, keys, nil, false)
		e0.NoRetain = true
		if err := e0.Open(); err != nil {
			cr.v = violf("open-failed", "Open of the earlier session: %v", err)
			cr.env = e0
			return cr
		}
		for i, op := range p.Epochs0() {
			if op.K != "put" && op.K != "del" && op.K != "sync" {
				continue
			}
			if v := e0.Do(op); v != nil {
				v.Detail = fmt.Sprintf("earlier session op#%d %s: %s", i, op, v.Detail)
				cr.v = v
				cr.env = e0
				return cr
			}
		}
		initial = e0.FS.Snapshot()
		cr.initial = initial
	}
	e := NewEnv(p.Cfg, keys, initial, co.journal)
	e.NoRetain = true
	cr.env = e
	var sim *sched.Sim
	if co.journal {
		prev := e.FS.OnMutate
		e.FS.OnMutate = func(j *JEntry) {
			prev(j)
			cr.stamps = append(cr.stamps, sim.Stamp())
		}
	}
	dbClosed := false // set when some Close call has returned nil
	record := func(ev *HistEv) { cr.hist = append(cr.hist, ev) }
	fail := func(v *Violation) {
		if cr.v == nil {
			cr.v = v
		}
	}
	doOp := func(task int, op Op, cnt *int) {
		db := e.DB
		ev := &HistEv{Task: task, Op: op, STask: sim.Current().ID}
		closeInvokedBefore := cr.closeInv != 0
		ev.Inv = sim.Stamp()
		var err error
		switch op.K {
		case "put":
			val := MakeValue(task, op.ID, op.Size)
			ev.Val = val
			k := append([]byte(nil), keys[op.Key]...)
			arg := append([]byte(nil), val...)
			err = db.Put(k, arg)
			scribble(k)
			scribble(arg)
		case "del":
			err = db.Delete(keys[op.Key])
		case "get":
			var v []byte
			v, err = db.Get(keys[op.Key])
			ev.Val, ev.IsNil = append([]byte(nil), v...), v == nil
			cr.retain(v, "Get")
		case "geta":
			buf := make([]byte, op.Size, op.Size+4)
			for i := range buf {
				buf[i] = byte('a' + i%26)
			}
			var v []byte
			v, err = db.GetAppend(keys[op.Key], buf)
			ev.Val, ev.IsNil = append([]byte(nil), v...), v == nil
			cr.retain(v, "GetAppend")
		case "has":
			ev.Bool, err = db.Has(keys[op.Key])
		case "count":
			ev.N = int(db.Count())
		case "sync":
			err = db.Sync()
		case "compact":
			var r pogreb.CompactionResult
			r, err = db.Compact()
			ev.N = r.CompactedSegments
			if isBusy(err) {
				ev.Err = "busy"
				err = nil
			}
			if r.CompactedSegments > 0 {
				e.Probes["compacted_segments"] += r.CompactedSegments
			}
		case "backup":
			err = db.Backup(co.backupDir)
		case "filesize":
			var n int64
			n, err = db.FileSize()
			ev.N = int(n)
		case "metrics":
			m := db.Metrics()
			ev.N = int(m.Puts.Value())
		case "items":
			it := db.Items()
			for n := 0; ; n++ {
				i0 := sim.Stamp()
				k, v, nerr := it.Next()
				i1 := sim.Stamp()
				ev.ScanInv = append(ev.ScanInv, i0)
				ev.ScanRet = append(ev.ScanRet, i1)
				if nerr == pogreb.ErrIterationDone {
					break
				}
				if nerr != nil {
					err = nerr
					break
				}
				ev.Pairs = append(ev.Pairs, [2][]byte{append([]byte(nil), k...), append([]byte(nil), v...)})
				if n < 3 {
					cr.retain(k, "Next(key)")
					cr.retain(v, "Next(value)")
				}
				if n > 5000 {
					err = fmt.Errorf("scan does not terminate")
					break
				}
			}
		case "close":
			if cr.closeInv == 0 {
				cr.closeInv = ev.Inv
				cr.closedBy = task
			}
			err = db.Close()
			if err == nil && !dbClosed {
				dbClosed = true
				cr.closeRet = sim.Stamp()
			}
		default:
			panic("conc: unknown op " + op.K)
		}
		ev.Ret = sim.Stamp()
		if err != nil {
			ev.Err = err.Error()
			// C10: an operation that loses the race with Close may fail; it lost the race if some Close
			// had been invoked by the time it returned (not only by the time it was invoked)
			lostToClose := closeInvokedBefore || cr.closeInv != 0
			if !(co.allowErrAfterClose && lostToClose) && !(co.allowErrAfterClose && op.K == "close") {
				fail(violf("api-error", "task %d %s: %v", task, op, err))
			}
		}
		record(ev)
	}
	var mainTask *sched.Task
	body := func() {
		sim = sched.New(sched.Config{
			Seed: p.Cfg.SchedSeed, Tape: p.Tape, Sticky: p.Cfg.Sticky, TickProb: p.Cfg.TickProb,
			FSYields: p.Cfg.FSYields, UnlockYields: p.Cfg.UnlockYields, MaxSteps: 400000, LogEvents: os.Getenv("VERIF_EVLOG") != "",
		}, synctest.Wait)
		cr.sim = sim
		mainTask = sim.Go("main", func() {
			if err := e.Open(); err != nil {
				fail(violf("open-failed", "Open: %v", err))
				return
			}
			if initial != nil {
				if !e.lastOpenRecovered {
					fail(violf("unclean-shutdown-not-recovered", "Open on the image of the crashed earlier session did not run recovery"))
					return
				}
				e.Probes["run_started_with_recovery"]++
				// the earlier session's writes are part of the history: completed before anything else
				// (negative stamps: they returned before the first event of this run, the recovering Open included)
				n := int64(len(p.Epochs0()))
				for i, op := range p.Epochs0() {
					if op.K != "put" && op.K != "del" {
						continue
					}
					ev := &HistEv{Task: 0, Op: op, STask: sim.Current().ID, Inv: -2 * (n - int64(i)) - 1}
					if op.K == "put" {
						ev.Val = MakeValue(0, op.ID, op.Size)
					}
					ev.Ret = ev.Inv + 1
					record(ev)
					cr.preload++
				}
			} else {
				for _, op := range p.Epochs0() {
					doOp(0, op, nil)
					cr.preload++
				}
			}
			var clients []*sched.Task
			for ti := range p.Tasks {
				ti := ti
				ops := p.Tasks[ti]
				cnt := 0
				clients = append(clients, sim.Go(fmt.Sprintf("client%d", ti), func() {
					for _, op := range ops {
						doOp(ti+1, op, &cnt)
					}
				}))
			}
			sim.Join(clients...)
			if co.afterJoin != nil && cr.closeInv == 0 && cr.v == nil {
				if v := co.afterJoin(cr, sim); v != nil {
					fail(v)
				}
			}
			if cr.closeInv == 0 && co.finalReads {
				for ki := range keys {
					doOp(0, Op{K: "get", Key: ki}, nil)
				}
				doOp(0, Op{K: "count"}, nil)
				doOp(0, Op{K: "items"}, nil)
			}
			if !dbClosed {
				doOp(0, Op{K: "close"}, nil)
			}
		})
		sim.Run()
	}
	cr.leak = runBubble(t, body)
	if f := os.Getenv("VERIF_EVLOG"); f != "" && sim != nil {
		os.WriteFile(f, []byte(strings.Join(sim.EventLog(), "\n")+"\n"), 0644)
	}
	_ = mainTask
	if sim == nil {
		panic("conc: the bubble did not start: " + cr.leak)
	}
	if cr.v == nil {
		if v := cr.checkRetained("by the end of the run (after Close)"); v != nil {
			cr.v = v
		}
	}
	if sim != nil {
		for _, tk := range sim.Tasks() {
			if tk.Panic != nil {
				fail(violf("panic", "task %s panicked: %v\n%s", tk.Name, tk.Panic, trimStack(tk.Stack)))
			}
		}
		if sim.Deadlock != "" {
			fail(violf("deadlock", "%s", sim.Deadlock))
		} else if sim.StepLimit {
			fail(violf("step-limit", "run exceeded the step limit (livelock?)"))
		} else if cr.leak != "" {
			fail(violf("goroutine-leak", "%s", cr.leak))
		}
	}
	return cr
}

func trimStack(s string) string {
	lines := strings.Split(s, "\n")
	var out []string
	for _, l := range lines {
		if strings.Contains(l, "pogreb") || strings.Contains(l, "panic") {
			out = append(out, strings.TrimSpace(l))
		}
		if len(out) > 12 {
			break
		}
	}
	return strings.Join(out, " | ")
}

// writesByKey returns, per key, the history events that write it, in invocation order.
func writesByKey(hist []*HistEv, keys [][]byte) map[int][]*HistEv {
	m := map[int][]*HistEv{}
	for _, ev := range hist {
		if ev.Op.K == "put" || ev.Op.K == "del" {
			m[ev.Op.Key] = append(m[ev.Op.Key], ev)
		}
	}
	for _, evs := range m {
		sort.SliceStable(evs, func(i, j int) bool { return evs[i].Inv < evs[j].Inv })
	}
	return m
}

func evVal(ev *HistEv) mval {
	if ev.Op.K == "put" {
		return mval{true, ev.Val}
	}
	return mval{}
}

var _ = bytes.Equal
var _ = time.Second
