package harness

import (
	"fmt"
	"math/rand"
	"os"
	"strings"
	"testing"

	"verif.local/sim/sched"
)

// ---------------------------------------------------------------------------------------------
// C15, periodic compaction by the background worker (BackgroundCompactionInterval > 0) under the
// deterministic scheduler: writers overwrite and delete a fixed key universe while a maintenance task
// calls Backup / Compact / FileSize, so that background ticks also land while the maintenance lock is
// taken (the worker's Compact then returns "busy"). Bounded liveness once the workload has stopped:
// after two more DELIVERED ticks of the compaction timer (the second one can only be delivered to a
// worker that is back in its select, i.e. after the compaction started by the first has finished) - or,
// if the worker never accepts a tick again, after a generous number of scheduling steps - the directory
// obeys the same bound as after an explicit Compact (eng_space.go).

type bgSpaceEngine struct{ t *testing.T }

func (bgSpaceEngine) Generate(rng *rand.Rand, prop string, thorough bool) *Plan {
	cfg := GenConcCfg(rng, prop)
	cfg.NKeys = []int{4, 8, 12, 20}[rng.Intn(4)]
	cfg.MaxSeg = []uint32{4096, 8192}[rng.Intn(2)]
	cfg.CompMinSeg = []uint32{1, 513, 1024}[rng.Intn(3)]
	cfg.CompFrag = []float32{0.05, 0.1, 0.25, 0.5}[rng.Intn(4)]
	cfg.BgSyncMs = 0
	cfg.BgCompactMs = []int{7, 11}[rng.Intn(2)]
	cfg.TickProb = []float64{0.01, 0.03, 0.1}[rng.Intn(3)]
	cfg.FSYields = rng.Intn(4) != 0
	cfg.RecoverFirst = false
	p := &Plan{Property: prop, Engine: "bgspace", Cfg: cfg}
	keys := GenKeys(rng, KeyFamily(cfg.Family), cfg.NKeys, cfg.HashSeed)
	p.Cfg.NKeys = len(keys)
	cfg.NKeys = len(keys)
	p.SetKeys(keys)
	id := 0
	sizes := []int{100, 200, 300}
	nw := 1 + rng.Intn(2)
	parts := splitKeys(cfg.NKeys, nw)
	n := 150 + rng.Intn(150)
	if thorough {
		n = 200 + rng.Intn(400)
	}
	for w := 0; w < nw; w++ {
		p.Tasks = append(p.Tasks, genClient(rng, cfg, n/nw, map[string]int{"put": 85, "del": 15}, parts[w], &id, sizes))
	}
	// the maintenance task: every call holds the maintenance lock for many scheduling steps
	var m []Op
	for k := 2 + rng.Intn(6); k > 0; k-- {
		m = append(m, Op{K: []string{"backup", "backup", "compact", "filesize"}[rng.Intn(4)]})
	}
	p.Tasks = append(p.Tasks, m)
	return p
}

func (b bgSpaceEngine) Execute(p *Plan) *RunResult {
	res := newResult()
	var waited, delivered int
	var segBytes, live, bound int64
	nkeys := 0
	after := func(cr *concResult, sim *sched.Sim) *Violation {
		e := cr.env
		start := sim.Ticks
		// bounded liveness: nothing but the background worker runs from here on
		for waited = 0; waited < 6000 && sim.Ticks < start+2; waited++ {
			sim.Yield("idle")
		}
		delivered = sim.Ticks - start
		for _, k := range p.KeyBytes() {
			v, err := e.DB.Get(k)
			if err != nil {
				return violf("api-error", "Get after the workload: %v", err)
			}
			if v != nil {
				live += int64(len(k)) + int64(len(v)) + 10
				nkeys++
			}
		}
		return nil
	}
	cr := concExec(b.t, p, concOpts{backupDir: "bk", afterJoin: after})
	res.Probes.Add(cr.env.Probes)
	if cr.sim != nil {
		res.Steps = cr.sim.Steps()
		res.SimNanos = int64(cr.sim.SimTime())
		res.Faults["tick"] += cr.sim.Ticks
		res.Faults["tick_dropped"] += cr.sim.TicksDropped
		res.Probes["context_switches"] += cr.sim.Switches
		res.Hashes = append(res.Hashes, cr.sim.SchedHash())
		p.Tape = append([]int(nil), cr.sim.Choices...)
	}
	busy := 0
	for _, ev := range cr.hist {
		if ev.Err == "busy" {
			busy++
		}
	}
	res.Probes["bg_explicit_compact_busy"] += busy
	res.Probes["bg_worker_compaction_refused_busy"] += strings.Count(cr.env.LogBuf.String(), "error compacting database")
	if os.Getenv("VERIF_DEBUG") != "" {
		fmt.Printf("DEBUG bgspace ticks=%d dropped=%d waited=%d delivered=%d log:\n%s\n", cr.sim.Ticks, cr.sim.TicksDropped, waited, delivered, cr.env.LogBuf.String())
	}
	if cr.v != nil {
		res.V = cr.v
		return res
	}
	// concExec has closed the database (Close waits for the worker, so a compaction that the last tick
	// started has finished): audit the closed directory
	e := cr.env
	a, av := auditDir(e.FS, false)
	if av != nil {
		av.Detail = "after Close: " + av.Detail
		res.V = av
		return res
	}
	frag := float64(p.Cfg.CompFrag)
	segBytes = a.segBytes
	bound = int64(1.5*float64(live)/(1-frag)) + 2*int64(p.Cfg.MaxSeg) + 2048
	if a.segBytes > bound {
		res.V = violf("space-not-reclaimed-by-background-compaction", "the workload stopped, the background worker (compaction interval %d ms) was given %d scheduling steps and accepted %d more ticks, then the database was closed: the segments take %d bytes for %d bytes of live records in %d keys (fragmentation threshold %.2f, segment size %d, bound %d)",
			p.Cfg.BgCompactMs, waited, delivered, a.segBytes, live, nkeys, frag, p.Cfg.MaxSeg, bound)
		return res
	}
	if h, per := e.FS.OpenHandles(); h != 0 {
		res.V = violf("handle-leak", "%d file handles open after Close: %v", h, per)
		return res
	}
	res.NonTrivial = cr.sim.Ticks > 2
	res.Sample = map[string]interface{}{"seed": p.Seed, "tasks": len(p.Tasks), "ops": p.NumOps(), "steps": res.Steps, "ticks": cr.sim.Ticks, "idle_steps_waited": waited, "ticks_after_workload": delivered,
		"segment_bytes_after_close": segBytes, "live_bytes": live, "bound": bound, "cfg": p.Cfg}
	_ = fmt.Sprint
	return res
}
