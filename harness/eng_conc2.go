package harness

import (
	"bytes"
	"fmt"
	"math/rand"
	"os"
	"sort"
	"strings"
	"testing"

	"github.com/anishathalye/porcupine"
)

func simStats(res *RunResult, cr *concResult, p *Plan) {
	res.Probes.Add(cr.env.Probes)
	if cr.sim != nil {
		res.Steps = cr.sim.Steps()
		res.SimNanos = int64(cr.sim.SimTime())
		res.Faults["tick"] += cr.sim.Ticks
		res.Faults["tick_dropped"] += cr.sim.TicksDropped
		res.Probes["context_switches"] += cr.sim.Switches
		res.Hashes = append(res.Hashes, cr.sim.SchedHash())
		p.Tape = append([]int(nil), cr.sim.Choices...)
	}
	if cr.env.FS.Stats.ShortReads > 0 {
		res.Faults["short_read"] += cr.env.FS.Stats.ShortReads
	}
	if cr.env.FS.Stats.Poisoned > 0 {
		res.Faults["buffer_poisoned"] += cr.env.FS.Stats.Poisoned
	}
}

func splitKeys(n, parts int) [][]int {
	out := make([][]int, parts)
	for i := 0; i < n; i++ {
		out[i%parts] = append(out[i%parts], i)
	}
	return out
}

// ---------------------------------------------------------------------------------------------
// C05: compaction is invisible - writers in the lock-release windows, crash points inside Compact.

type compactEngine struct {
	t *testing.T
	// ploss: C06 under concurrency - Sync calls race with writers and compaction, the images are
	// power-loss images (per-file synced content + a prefix of what was written since)
	ploss bool
	// afterRecovery: C04 - every run starts from the image of a session that died (the recovering Open runs under
	// the scheduler, with the background worker configured in 2 runs of 3), then compaction, writers and crash
	// points as for C05
	afterRecovery bool
	// closed: C09 after a concurrent session - the run ends with a clean Close, then the next Open runs; power-loss
	// images at every instant from the return of Close to the end of that Open must read the closed contents
	closed bool
}

func (c compactEngine) Generate(rng *rand.Rand, prop string, thorough bool) *Plan {
	cfg := GenConcCfg(rng, prop)
	cfg.NKeys = 3 + rng.Intn(10)
	cfg.CompMinSeg = 1
	cfg.CompFrag = []float32{0.01, 0.01, 0.1}[rng.Intn(3)]
	cfg.MaxSeg = []uint32{600, 700, 900, 1024, 2048}[rng.Intn(5)]
	cfg.Sticky = []int{0, 0, 0, 3}[rng.Intn(4)]
	cfg.BgSyncMs = 0
	if rng.Intn(3) != 0 {
		cfg.BgCompactMs, cfg.TickProb = 0, 0
	}
	// 1 run in 4: a key set that overflows one bucket chain (> 31 colliding keys), so that compaction has to
	// find records indexed in overflow buckets, behind holes that deletes leave in earlier buckets
	chain := rng.Intn(4) == 0
	if chain {
		cfg.NKeys = []int{34, 40, 48, 64}[rng.Intn(4)]
		cfg.Family = int(KFLowBits)
		cfg.MaxSeg = []uint32{1024, 2048, 4096}[rng.Intn(3)]
		cfg.FSYields = false
	}
	if c.ploss {
		cfg.SyncMode = 1 + rng.Intn(2)
		cfg.BgSyncMs = 0
	}
	// 1 run in 4 (not a chain run): the index grows past a split threshold DURING the concurrent phase
	grow := !chain && rng.Intn(3) == 0
	if os.Getenv("VERIF_SHAPE") == "grow" {
		chain, grow = false, true
	}
	if grow {
		cfg.NKeys = 30 + rng.Intn(30)
		cfg.Family = []int{int(KFTiny), int(KFMixed)}[rng.Intn(2)]
		cfg.MaxSeg = []uint32{1024, 2048, 4096}[rng.Intn(3)]
	}
	// 1 run in 4 (C09 mode: more than half; not chain/grow): "cold keys in sealed, garbage-free segments" - the older segments hold only live
	// puts (never picked on their own), the newer ones hold the garbage of a few hot keys, the preload writes no
	// delete record, and the writers' FIRST operations delete cold keys while the compactor picks: a delete record
	// that reaches a picked segment between the pick and the moment it stops taking writes is dropped while the
	// put in the unpicked older segment stays (seen after a crash)
	if !chain && !grow && !c.ploss && !c.afterRecovery && (rng.Intn(4) == 0 || (c.closed && rng.Intn(2) == 0) || os.Getenv("VERIF_SHAPE") == "cold") {
		pc := c.generateCold(rng, prop, cfg)
		if c.closed {
			pc.Engine = "compact-closed"
		}
		return pc
	}
	cfg.RecoverFirst = rng.Intn(4) == 0 || c.afterRecovery
	if c.afterRecovery && !chain && rng.Intn(3) != 0 {
		cfg.BgCompactMs = []int{7, 11}[rng.Intn(2)]
		cfg.TickProb = []float64{0.05, 0.2, 0.4}[rng.Intn(3)]
		cfg.FSYields = true
	}
	if cfg.RecoverFirst {
		// after a recovery the segment counters are what recovery rebuilt: let the thresholds decide
		// which segments are picked, so that a segment is also compacted WITHOUT its older neighbours
		cfg.CompFrag = []float32{0.01, 0.2, 0.4, 0.6}[rng.Intn(4)]
	}
	p := &Plan{Property: prop, Engine: "compact", Cfg: cfg}
	if c.ploss {
		p.Engine = "compact-ploss"
	}
	if c.closed {
		p.Engine = "compact-closed"
	}
	keys := GenKeys(rng, KeyFamily(cfg.Family), cfg.NKeys, cfg.HashSeed)
	p.Cfg.NKeys = len(keys)
	cfg.NKeys = len(keys)
	p.SetKeys(keys)
	id := 0
	// preload: fill a few segments with live / overwritten / deleted records
	all := make([]int, cfg.NKeys)
	for i := range all {
		all[i] = i
	}
	sizes := []int{0, 12, 16, 40, 100, 200}
	var pre []Op
	if chain {
		sizes = []int{12, 12, 16, 30}
		for _, k := range rng.Perm(cfg.NKeys) {
			id++
			pre = append(pre, Op{K: "put", Key: k, ID: id, Size: sizes[rng.Intn(len(sizes))]})
		}
		for d := rng.Intn(6); d > 0; d-- {
			pre = append(pre, Op{K: "del", Key: rng.Intn(cfg.NKeys)})
		}
	}
	p.Epochs = [][]Op{append(pre, genClient(rng, cfg, 5+rng.Intn(40), map[string]int{"put": 60, "del": 25, "sync": 2}, all, &id, sizes)...)}
	nw := 1 + rng.Intn(2)
	parts := splitKeys(cfg.NKeys, nw)
	if grow {
		// preload only the first 17-21 keys (several times: garbage for compaction); the writers own the
		// remaining, new keys, so that the index crosses its load factor and splits while compaction runs
		nPre := 17 + rng.Intn(5)
		// every key once (these records stay live: compaction has to re-check and copy them, which is where
		// a concurrent split hurts), then a third of them again so that every segment has some garbage
		var pl []Op
		for _, k := range rng.Perm(nPre) {
			id++
			pl = append(pl, Op{K: "put", Key: k, ID: id, Size: sizes[rng.Intn(len(sizes))]})
			if rng.Intn(3) == 0 {
				id++
				pl = append(pl, Op{K: "put", Key: k, ID: id, Size: sizes[rng.Intn(len(sizes))]})
			}
		}
		p.Epochs = [][]Op{pl}
		parts = make([][]int, nw)
		for k := nPre; k < cfg.NKeys; k++ {
			parts[k%nw] = append(parts[k%nw], k)
		}
	}
	for w := 0; w < nw; w++ {
		if len(parts[w]) == 0 {
			parts[w] = []int{0}
		}
		ww := map[string]int{"put": 50, "del": 30, "get": 10, "has": 3}
		if grow {
			ww = map[string]int{"put": 80, "del": 8, "get": 10, "has": 2}
		}
		if c.ploss && cfg.SyncMode == 1 {
			ww["sync"] = 12
		}
		p.Tasks = append(p.Tasks, genClient(rng, cfg, 3+rng.Intn(25), ww, parts[w], &id, sizes))
	}
	if c.ploss && cfg.SyncMode == 1 && rng.Intn(2) == 0 {
		p.Tasks = append(p.Tasks, genClient(rng, cfg, 1+rng.Intn(5), map[string]int{"sync": 10, "count": 2}, all, &id, sizes))
	}
	// the compactor
	p.Tasks = append(p.Tasks, genClient(rng, cfg, 1+rng.Intn(4), map[string]int{"compact": 10}, all, &id, sizes))
	// a reader / checker
	if rng.Intn(2) == 0 {
		p.Tasks = append(p.Tasks, genClient(rng, cfg, 3+rng.Intn(20), map[string]int{"get": 30, "has": 10, "geta": 5, "count": 5, "items": 2}, all, &id, sizes))
	}
	return p
}

func (c compactEngine) generateCold(rng *rand.Rand, prop string, cfg Cfg) *Plan {
	cfg.NKeys = 6 + rng.Intn(7)
	cfg.MaxSeg = []uint32{900, 1024, 2048}[rng.Intn(3)]
	cfg.CompMinSeg = 1
	cfg.CompFrag = []float32{0.1, 0.2, 0.4}[rng.Intn(3)]
	cfg.RecoverFirst = false
	p := &Plan{Property: prop, Engine: "compact", Cfg: cfg}
	keys := GenKeys(rng, KeyFamily(cfg.Family), cfg.NKeys, cfg.HashSeed)
	p.Cfg.NKeys = len(keys)
	cfg.NKeys = len(keys)
	p.SetKeys(keys)
	id := 0
	nHot := 1 + rng.Intn(2)
	if nHot >= cfg.NKeys {
		nHot = 1
	}
	var hot, cold []int
	for k := 0; k < cfg.NKeys; k++ {
		if k < nHot {
			hot = append(hot, k)
		} else {
			cold = append(cold, k)
		}
	}
	var pre []Op
	for _, k := range cold {
		id++
		pre = append(pre, Op{K: "put", Key: k, ID: id, Size: []int{100, 200, 200}[rng.Intn(3)]})
	}
	hotPuts := func(n int) []Op {
		var o []Op
		for ; n > 0; n-- {
			id++
			o = append(o, Op{K: "put", Key: hot[rng.Intn(len(hot))], ID: id, Size: []int{40, 100, 200}[rng.Intn(3)]})
		}
		return o
	}
	pre = append(pre, hotPuts(6+rng.Intn(12))...)
	p.Epochs = [][]Op{pre}
	// the deleter: a cold key first, then hot puts (the log rolls over to a current segment without delete
	// records), then the next cold key ...
	var del []Op
	for _, i := range rng.Perm(len(cold)) {
		if len(del) > 30 {
			break
		}
		del = append(del, Op{K: "del", Key: cold[i]})
		del = append(del, hotPuts(rng.Intn(8))...)
	}
	p.Tasks = append(p.Tasks, del)
	var comp []Op
	nc := 2 + rng.Intn(6)
	if c.closed {
		// C09 looks at the directory after the session: a later compaction of the older segments would
		// remove what a dropped delete record leaves behind
		nc = 1 + rng.Intn(2)
	}
	for ; nc > 0; nc-- {
		comp = append(comp, Op{K: "compact"})
	}
	p.Tasks = append(p.Tasks, comp)
	if rng.Intn(3) == 0 {
		all := make([]int, cfg.NKeys)
		for i := range all {
			all[i] = i
		}
		p.Tasks = append(p.Tasks, genClient(rng, cfg, 3+rng.Intn(10), map[string]int{"get": 30, "has": 10, "count": 5}, all, &id, []int{0}))
	}
	return p
}

// allowedFromHistory computes, for a crash at stamp s, the allowed values per key from a
// concurrent history in which every key has a single writer task (plus the preload by main).
func allowedFromHistory(hist []*HistEv, keys [][]byte, s int64) (map[string]valset, *oracle) {
	o := newOracle()
	al := map[string]valset{}
	wbk := writesByKey(hist, keys)
	for ki, kb := range keys {
		k := string(kb)
		base := mval{}
		var set valset
		for _, w := range wbk[ki] {
			o.history[k] = o.history[k].add(evVal(w))
			if w.Ret != 0 && w.Ret < s {
				base = evVal(w)
				set = nil
			} else if w.Inv < s {
				set = set.add(evVal(w))
			}
		}
		al[k] = append(valset{base}, set...)
	}
	return al, o
}

func (c compactEngine) Execute(p *Plan) *RunResult {
	res := newResult()
	cr := concExec(c.t, p, concOpts{finalReads: true, journal: true})
	simStats(res, cr, p)
	if cr.v != nil {
		res.V = cr.v
		return res
	}
	r, nops, bad := checkLinearizable(cr.hist)
	res.Probes["lin_ops_checked"] += nops
	if r == porcupine.Illegal {
		res.V = violf("not-linearizable", "%s", bad)
		return res
	}
	if r == porcupine.Unknown {
		res.Inconclusive++
	}
	if v := checkScansTruthful(cr.hist, p.KeyBytes()); v != nil {
		res.V = v
		return res
	}
	if v := checkCountBounds(cr.hist, p.KeyBytes()); v != nil {
		res.V = v
		return res
	}
	if c.ploss {
		return c.powerLossSweep(p, cr, res)
	}
	if c.closed {
		return c.closedSweep(p, cr, res)
	}
	// single-writer check of the plan (main preload happens-before the clients)
	// crash points inside Compact calls (and right after them)
	keys := p.KeyBytes()
	j := cr.env.FS.Journal
	type window struct{ a, b int64 }
	var wins []window
	for _, ev := range cr.hist {
		if ev.Op.K == "compact" && ev.N > 0 {
			wins = append(wins, window{ev.Inv, ev.Ret + 2})
		}
	}
	// the background worker's compactions are not in the history: treat every segment removal as a window
	for i, e := range j {
		if e.Kind == JRemove && strings.HasSuffix(e.Name, ".psg") {
			wins = append(wins, window{cr.stamps[i] - 40, cr.stamps[i] + 3})
		}
	}
	var pts []crashPoint
	for k := 0; k <= len(j); k++ {
		var s int64
		if k < len(j) {
			s = cr.stamps[k]
		} else {
			s = 1 << 60
		}
		in := k == len(j)
		for _, w := range wins {
			if s >= w.a && s <= w.b {
				in = true
			}
		}
		if !in {
			continue
		}
		pts = append(pts, crashPoint{k: k})
		if k < len(j) && j[k].Kind == JWrite {
			for _, cut := range TornCuts(j[k].Off, len(j[k].Data)) {
				pts = append(pts, crashPoint{k: k, cut: cut})
			}
		}
	}
	rng := rand.New(rand.NewSource(p.Seed ^ 0x1f83d9ab))
	const maxPts = 40
	if len(pts) > maxPts {
		rng.Shuffle(len(pts), func(a, b int) { pts[a], pts[b] = pts[b], pts[a] })
		pts = pts[:maxPts]
		sort.Slice(pts, func(a, b int) bool {
			if pts[a].k != pts[b].k {
				return pts[a].k < pts[b].k
			}
			return pts[a].cut < pts[b].cut
		})
	}
	rp := NewReplayer(initialOrEmpty(cr.initial))
	applied := 0
	for _, pt := range pts {
		for applied < pt.k {
			rp.Apply(&j[applied])
			applied++
		}
		var s int64 = 1 << 60
		var torn *JEntry
		if pt.k < len(j) {
			s = cr.stamps[pt.k]
			if pt.cut > 0 {
				torn = &j[pt.k]
			}
		}
		im := rp.ProcessCrashImage(torn, pt.cut)
		al, o := allowedFromHistory(cr.hist, keys, s)
		res.Evaluations++
		res.Faults["pcrash_in_compaction_window"]++
		if pt.cut > 0 {
			res.Faults["torn_write"]++
		}
		res.Hashes = append(res.Hashes, fnvAdd(im.Digest(), []byte("c05")))
		if _, v := checkImage(p.Cfg, keys, im, o, al, res.Probes); v != nil {
			desc := "after the last call"
			if pt.k < len(j) {
				desc = fmt.Sprintf("in flight: %s by task %d", j[pt.k], j[pt.k].Task)
			}
			if os.Getenv("VERIF_DEBUG") != "" {
				for _, ev := range cr.hist {
					fmt.Printf("DEBUG hist task%d %s inv=%d ret=%d n=%d err=%q\n", ev.Task, ev.Op.String(), ev.Inv, ev.Ret, ev.N, ev.Err)
				}
				for i := 0; i <= pt.k && i < len(j); i++ {
					if strings.HasSuffix(j[i].Name, ".pix") {
						continue
					}
					fmt.Printf("DEBUG j[%d] stamp=%d task=%d %s\n", i, cr.stamps[i], j[i].Task, j[i])
				}
				files := ImageFiles(im)
				segs, _ := ListSegments(files, "db")
				for _, sn := range segs {
					recs, vl, why := DecodeSegment(files[sn.Path])
					fmt.Printf("DEBUG segment %+v len=%d valid=%d %s\n", sn, len(files[sn.Path]), vl, why)
					for _, r := range recs {
						fmt.Printf("DEBUG    %+v\n", r)
					}
				}
			}
			v.Detail = fmt.Sprintf("crash at journal[%d/%d] stamp %d (%s) cut=%d: %s", pt.k, len(j), s, desc, pt.cut, v.Detail)
			res.V = v
			return res
		}
	}
	res.NonTrivial = cr.env.Probes["segment_removed"] > 0
	if cr.env.Probes["segment_removed"] > 0 && cr.sim.Switches > 2 {
		res.Probes["writer_ran_during_compaction"] += countWritesDuringCompaction(cr.hist)
	}
	res.Sample = map[string]interface{}{"seed": p.Seed, "tasks": len(p.Tasks), "preload": len(p.Epochs0()), "ops": p.NumOps(), "steps": res.Steps, "crash_points": len(pts), "cfg": p.Cfg}
	return res
}

func countWritesDuringCompaction(hist []*HistEv) int {
	n := 0
	for _, c := range hist {
		if c.Op.K != "compact" || c.N == 0 {
			continue
		}
		for _, w := range hist {
			if (w.Op.K == "put" || w.Op.K == "del") && w.Inv > c.Inv && w.Ret < c.Ret {
				n++
			}
		}
	}
	return n
}

// ---------------------------------------------------------------------------------------------
// C10: every public method from several tasks, Close racing with everything.

type chaosEngine struct{ t *testing.T }

func (chaosEngine) Generate(rng *rand.Rand, prop string, thorough bool) *Plan {
	cfg := GenConcCfg(rng, prop)
	p := &Plan{Property: prop, Engine: "chaos", Cfg: cfg}
	keys := GenKeys(rng, KeyFamily(cfg.Family), cfg.NKeys, cfg.HashSeed)
	p.Cfg.NKeys = len(keys)
	cfg.NKeys = len(keys)
	p.SetKeys(keys)
	id := 0
	all := make([]int, cfg.NKeys)
	for i := range all {
		all[i] = i
	}
	p.Epochs = [][]Op{genClient(rng, cfg, rng.Intn(20), map[string]int{"put": 60, "del": 20}, all, &id, concSizes)}
	n := 3 + rng.Intn(4)
	parts := splitKeys(cfg.NKeys, n)
	closer := rng.Intn(n)
	for c := 0; c < n; c++ {
		w := map[string]int{"put": 25, "del": 10, "get": 15, "geta": 5, "has": 5, "count": 3, "items": 3, "sync": 3, "compact": 4, "backup": 1, "filesize": 2, "metrics": 1}
		if len(parts[c]) == 0 {
			// more tasks than keys: this one owns no key and only reads (one writer per key keeps the
			// final-contents oracle exact)
			parts[c] = []int{0}
			w["put"], w["del"] = 0, 0
		}
		ops := genClient(rng, cfg, 4+rng.Intn(25), w, parts[c], &id, concSizes)
		if c == closer || rng.Intn(6) == 0 {
			pos := rng.Intn(len(ops) + 1)
			ops = append(ops[:pos], append([]Op{{K: "close"}}, ops[pos:]...)...)
			if rng.Intn(4) == 0 {
				ops = append(ops, Op{K: "close"})
			}
		}
		p.Tasks = append(p.Tasks, ops)
	}
	return p
}

func (c chaosEngine) Execute(p *Plan) *RunResult {
	res := newResult()
	cr := concExec(c.t, p, concOpts{allowErrAfterClose: true, finalReads: false, backupDir: "bk"})
	simStats(res, cr, p)
	if cr.v != nil {
		res.V = cr.v
		return res
	}
	keys := p.KeyBytes()
	if cr.closeRet == 0 {
		res.V = violf("close-failed", "no Close call returned nil")
		return res
	}
	res.Probes["close_raced"]++
	// "After Close returns, no goroutine started by the database is left running": the scheduler granted a
	// lock or FS operation to a database-spawned goroutine after the first successful Close had returned
	if cr.sim.LastExternalGrant > cr.closeRet {
		res.V = violf("goroutine-running-after-close", "a goroutine started by the database was granted a step at event %d, after Close returned at event %d", cr.sim.LastExternalGrant, cr.closeRet)
		return res
	}
	// allowed final contents per key (single writer per key: preload by main, then one client)
	wbk := writesByKey(cr.hist, keys)
	al := map[string]valset{}
	o := newOracle()
	for ki, kb := range keys {
		k := string(kb)
		base := mval{}
		var set valset
		for _, w := range wbk[ki] {
			o.history[k] = o.history[k].add(evVal(w))
			if w.Inv > cr.closeRet {
				// lost the race outright: "either fails with an error or has no effect on the contents"
				res.Probes["write_started_after_close"]++
				if w.Err == "" {
					res.Probes["write_after_close_returned_nil"]++
					continue // returned nil: must have no effect, its value is not allowed
				}
				set = set.add(evVal(w)) // failed: may have reached the log (pogreb does not fence a closed DB)
				continue
			}
			if w.Err == "" {
				base = evVal(w)
				set = nil
			} else {
				res.Probes["write_failed_in_close_race"]++
				set = set.add(evVal(w))
			}
		}
		al[k] = append(valset{base}, set...)
	}
	// Open handles / a held lock after Close are C15 / C13 matters, not clauses of C10 (a Put that lost the
	// race with Close may roll the log over and leave a new segment open): counted, not judged.
	if h, _ := cr.env.FS.OpenHandles(); h != 0 {
		res.Probes["handles_open_after_close"]++
	}
	if cr.env.FS.LocksHeld() != 0 {
		res.Probes["lock_held_after_close"]++
	}
	// view 1: clean reopen; view 2: recovery from the log (lock file re-created)
	snap := cr.env.FS.Snapshot()
	for view := 0; view < 2; view++ {
		im := snap.Clone()
		for n := range im.Files {
			if strings.HasPrefix(n, "bk/") {
				delete(im.Files, n)
			}
		}
		name := "clean reopen"
		if view == 1 {
			im.Files[dbDir+"/lock"] = &FileState{}
			name = "reopen with recovery"
		}
		if _, v := checkImageWal(p.Cfg, keys, im, o, al, res.Probes, true); v != nil {
			v.Class = "after-close-" + v.Class
			v.Detail = name + ": " + v.Detail
			res.V = v
			return res
		}
		res.Evaluations++
	}
	res.NonTrivial = cr.sim.Switches > 2
	res.Sample = map[string]interface{}{"seed": p.Seed, "tasks": len(p.Tasks), "ops": p.NumOps(), "steps": res.Steps, "closed_by_task": cr.closedBy, "cfg": p.Cfg}
	return res
}

// ---------------------------------------------------------------------------------------------
// C11: scans interleaved with splits, deletes, compaction.

type scanEngine struct{ t *testing.T }

func (scanEngine) Generate(rng *rand.Rand, prop string, thorough bool) *Plan {
	cfg := GenConcCfg(rng, prop)
	cfg.NKeys = []int{8, 24, 40, 64, 90}[rng.Intn(5)]
	cfg.Family = []int{int(KFLowBits), int(KFMixed), int(KFTiny), int(KFLowBits)}[rng.Intn(4)]
	cfg.MaxSeg = []uint32{1024, 2048, 4096, 8192}[rng.Intn(4)]
	p := &Plan{Property: prop, Engine: "scan", Cfg: cfg}
	keys := GenKeys(rng, KeyFamily(cfg.Family), cfg.NKeys, cfg.HashSeed)
	// 1 run in 3: a growing index with two bucket chains - two groups of low-bit colliders (33-62 and 24-40 keys,
	// so one chain has overflow buckets and the other is at the edge of getting one) plus 10-50 spread keys; about
	// two thirds are loaded before the scans start and the writers mostly put the rest while the scans are under
	// way, so that splits of a chained bucket (which free its overflow buckets) and overflow allocations in
	// another chain (which reuse the freed ones) both happen inside a scan
	chains := rng.Intn(3) == 0
	if chains {
		keys = GenKeys(rng, KFLowBits, 33+rng.Intn(30), cfg.HashSeed)
		seen := map[string]bool{}
		for _, k := range keys {
			seen[string(k)] = true
		}
		for _, k := range GenKeys(rng, KFLowBits, 24+rng.Intn(17), cfg.HashSeed) {
			if !seen[string(k)] {
				seen[string(k)] = true
				keys = append(keys, k)
			}
		}
		nr := 10 + rng.Intn(41)
		for c := 0; nr > 0; c++ {
			k := []byte("r" + itoa(int(cfg.HashSeed%1000)) + "-" + itoa(c))
			if !seen[string(k)] {
				keys = append(keys, k)
				nr--
			}
		}
		// the groups are spread over the writers' key partitions (splitKeys deals round robin)
		rng.Shuffle(len(keys), func(i, j int) { keys[i], keys[j] = keys[j], keys[i] })
	}
	p.Cfg.NKeys = len(keys)
	cfg.NKeys = len(keys)
	p.SetKeys(keys)
	id := 0
	all := make([]int, cfg.NKeys)
	for i := range all {
		all[i] = i
	}
	sizes := []int{12, 12, 16, 30}
	if chains {
		var pre []Op
		for _, k := range rng.Perm(cfg.NKeys) {
			if rng.Intn(100) < 30+rng.Intn(20) {
				continue
			}
			id++
			pre = append(pre, Op{K: "put", Key: k, ID: id, Size: sizes[rng.Intn(len(sizes))]})
			if rng.Intn(12) == 0 {
				pre = append(pre, Op{K: "del", Key: rng.Intn(cfg.NKeys)})
			}
		}
		p.Epochs = [][]Op{pre}
	} else {
		p.Epochs = [][]Op{genClient(rng, cfg, rng.Intn(cfg.NKeys*2+1), map[string]int{"put": 70, "del": 15}, all, &id, sizes)}
	}
	nw := 1 + rng.Intn(3)
	parts := splitKeys(cfg.NKeys, nw)
	for w := 0; w < nw; w++ {
		ww := map[string]int{"put": 55, "del": 30, "compact": 2}
		n := 5 + rng.Intn(50)
		if chains {
			ww = map[string]int{"put": 85, "del": 10, "compact": 1}
			n = len(parts[w])/2 + rng.Intn(len(parts[w]))
		} else if rng.Intn(3) == 0 {
			// a deleter: removes most of its keys while scans are under way (the key count shrinks under the scan)
			ww = map[string]int{"put": 8, "del": 90}
			n = len(parts[w]) + rng.Intn(len(parts[w])+1)
		}
		p.Tasks = append(p.Tasks, genClient(rng, cfg, n, ww, parts[w], &id, sizes))
	}
	ns := 1 + rng.Intn(2)
	for s := 0; s < ns; s++ {
		p.Tasks = append(p.Tasks, genClient(rng, cfg, 1+rng.Intn(3), map[string]int{"items": 10, "count": 1}, all, &id, sizes))
	}
	if rng.Intn(3) == 0 {
		p.Tasks = append(p.Tasks, genClient(rng, cfg, 1+rng.Intn(3), map[string]int{"compact": 10}, all, &id, sizes))
	}
	return p
}

func (c scanEngine) Execute(p *Plan) *RunResult {
	res := newResult()
	cr := concExec(c.t, p, concOpts{finalReads: true})
	simStats(res, cr, p)
	if cr.v != nil {
		res.V = cr.v
		return res
	}
	if v := checkScansTruthful(cr.hist, p.KeyBytes()); v != nil {
		res.V = v
		return res
	}
	// the final scan by main is quiescent: exactly the live keys, once each
	keys := p.KeyBytes()
	wbk := writesByKey(cr.hist, keys)
	for _, ev := range cr.hist {
		if ev.Op.K != "items" {
			continue
		}
		res.Probes["scans"]++
		overl := false
		for _, w := range cr.hist {
			if (w.Op.K == "put" || w.Op.K == "del") && w.Inv < ev.Ret && w.Ret > ev.Inv {
				overl = true
			}
		}
		if overl {
			res.Probes["scan_overlapped_writes"]++
		}
		if ev.Task != 0 {
			continue
		}
		want := map[string][]byte{}
		for ki, kb := range keys {
			ws := wbk[ki]
			if len(ws) == 0 {
				continue
			}
			// single writer per key: the last write in program order
			last := ws[len(ws)-1]
			if last.Op.K == "put" {
				want[string(kb)] = last.Val
			}
		}
		got := map[string]int{}
		for _, kv := range ev.Pairs {
			got[string(kv[0])]++
			if w, ok := want[string(kv[0])]; !ok || !bytes.Equal(w, kv[1]) {
				res.V = violf("quiescent-scan-mismatch", "final scan returned %s=%s, expected %s", clip(kv[0]), showVal(kv[1]), showVal(w))
				return res
			}
		}
		for k := range want {
			if got[k] != 1 {
				res.V = violf("quiescent-scan-mismatch", "final scan returned key %s %d times", clip([]byte(k)), got[k])
				return res
			}
		}
	}
	if cr.env.Probes["index_split"] > 0 && res.Probes["scan_overlapped_writes"] > 0 {
		res.Probes["scan_run_with_splits"]++
	}
	res.NonTrivial = res.Probes["scan_overlapped_writes"] > 0
	res.Sample = map[string]interface{}{"seed": p.Seed, "tasks": len(p.Tasks), "keys": len(keys), "ops": p.NumOps(), "steps": res.Steps, "cfg": p.Cfg}
	return res
}

// ---------------------------------------------------------------------------------------------
// C12: Backup is a point-in-time copy.

type backupEngine struct{ t *testing.T }

func (backupEngine) Generate(rng *rand.Rand, prop string, thorough bool) *Plan {
	cfg := GenConcCfg(rng, prop)
	cfg.NKeys = 2 + rng.Intn(10)
	cfg.ShortReads = rng.Intn(4) != 0
	cfg.MaxSeg = []uint32{600, 700, 1024, 2048}[rng.Intn(4)]
	cfg.RecoverFirst = rng.Intn(4) == 0
	if cfg.RecoverFirst {
		cfg.CompMinSeg = 1
		cfg.CompFrag = []float32{0.05, 0.2, 0.4, 0.6}[rng.Intn(4)]
	}
	p := &Plan{Property: prop, Engine: "backup", Cfg: cfg}
	keys := GenKeys(rng, KeyFamily(cfg.Family), cfg.NKeys, cfg.HashSeed)
	p.Cfg.NKeys = len(keys)
	cfg.NKeys = len(keys)
	p.SetKeys(keys)
	id := 0
	all := make([]int, cfg.NKeys)
	for i := range all {
		all[i] = i
	}
	sizes := []int{0, 12, 16, 40, 100, 300}
	p.Epochs = [][]Op{genClient(rng, cfg, rng.Intn(30), map[string]int{"put": 60, "del": 20}, all, &id, sizes)}
	// task 1: the single writer
	p.Tasks = append(p.Tasks, genClient(rng, cfg, 5+rng.Intn(40), map[string]int{"put": 60, "del": 25, "sync": 2}, all, &id, sizes))
	// task 2: backup, after a few reads so that it starts at a random time
	pre := genClient(rng, cfg, rng.Intn(6), map[string]int{"get": 1, "count": 1}, all, &id, sizes)
	p.Tasks = append(p.Tasks, append(pre, Op{K: "backup"}))
	if rng.Intn(2) == 0 {
		p.Tasks = append(p.Tasks, genClient(rng, cfg, 1+rng.Intn(3), map[string]int{"compact": 10}, all, &id, sizes))
	}
	return p
}

func (c backupEngine) Execute(p *Plan) *RunResult {
	res := newResult()
	cr := concExec(c.t, p, concOpts{finalReads: true, journal: true, backupDir: "bk"})
	simStats(res, cr, p)
	if cr.v != nil {
		res.V = cr.v
		return res
	}
	keys := p.KeyBytes()
	var bk *HistEv
	for _, ev := range cr.hist {
		if ev.Op.K == "backup" {
			bk = ev
		}
	}
	if bk == nil {
		return res
	}
	// the totally ordered log of writes: preload by main (task 0), then task 1
	var wlog []*HistEv
	for _, ev := range cr.hist {
		if (ev.Op.K == "put" || ev.Op.K == "del") && (ev.Task == 0 || ev.Task == 1) {
			wlog = append(wlog, ev)
		}
	}
	sort.SliceStable(wlog, func(i, j int) bool { return wlog[i].Inv < wlog[j].Inv })
	lo, hi := 0, 0
	for _, w := range wlog {
		if w.Ret < bk.Inv {
			lo++
		}
		if w.Inv < bk.Ret {
			hi++
		}
	}
	if hi > lo {
		res.Probes["writes_during_backup"] += hi - lo
	}
	// the source must only have been read by the backup task
	for i, e := range cr.env.FS.Journal {
		if cr.stamps[i] > bk.Inv && cr.stamps[i] < bk.Ret && e.Task == bk.STask && strings.HasPrefix(e.Name, dbDir+"/") {
			res.V = violf("backup-modified-source", "Backup issued %s on the source database", e)
			return res
		}
		if e.Kind == JCreate && strings.HasPrefix(e.Name, dbDir+"/") && strings.HasSuffix(e.Name, ".psg") && cr.stamps[i] > bk.Inv && cr.stamps[i] < bk.Ret {
			res.Probes["rollover_during_backup"]++
		}
	}
	// open the backup
	im := NewImage()
	snap := cr.env.FS.Snapshot()
	for n, st := range snap.Files {
		if strings.HasPrefix(n, "bk/") {
			im.Files[dbDir+"/"+strings.TrimPrefix(n, "bk/")] = st
		}
	}
	im.Dirs[dbDir] = true
	e := NewEnv(p.Cfg, keys, im, false)
	e.NoRetain = true
	if err := e.Open(); err != nil {
		res.V = violf("backup-does-not-open", "Open(backup): %v", err)
		return res
	}
	got := map[string]mval{}
	for _, kb := range keys {
		v, err := e.DB.Get(kb)
		if err != nil {
			res.V = violf("api-error", "Get on the backup: %v", err)
			return res
		}
		got[string(kb)] = mval{v != nil, v}
	}
	match := -1
	for jx := lo; jx <= hi; jx++ {
		m := map[string]mval{}
		for _, w := range wlog[:jx] {
			m[string(keys[w.Op.Key])] = evVal(w)
		}
		ok := true
		for _, kb := range keys {
			if !m[string(kb)].eq(got[string(kb)]) {
				ok = false
				break
			}
		}
		if ok {
			match = jx
			break
		}
	}
	if match < 0 {
		var diffs []string
		m := map[string]mval{}
		for _, w := range wlog[:lo] {
			m[string(keys[w.Op.Key])] = evVal(w)
		}
		for i, kb := range keys {
			if !m[string(kb)].eq(got[string(kb)]) {
				diffs = append(diffs, fmt.Sprintf("k%d: backup has %s, state at call has %s", i, got[string(kb)], m[string(kb)]))
			}
		}
		res.V = violf("backup-not-point-in-time", "the backup matches no prefix of the writer's log between %d (acknowledged before the call) and %d (issued before the return) operations; vs the state at the call: %v", lo, hi, diffs)
		return res
	}
	e.Model = NewModel()
	for k, mv := range got {
		if mv.present {
			e.Model.M[k] = mv.v
		}
	}
	if v := e.CheckContents(); v != nil {
		v.Class = "backup-" + v.Class
		res.V = v
		return res
	}
	if v := e.CheckStructure(false); v != nil {
		v.Class = "backup-" + v.Class
		res.V = v
		return res
	}
	// the source still equals its model: final reads by main are in the history
	r, _, bad := checkLinearizable(cr.hist)
	if r == porcupine.Illegal {
		res.V = violf("not-linearizable", "%s", bad)
		return res
	}
	res.Evaluations = 1
	res.NonTrivial = hi > lo
	res.Sample = map[string]interface{}{"seed": p.Seed, "writer_ops": len(p.Tasks[0]), "acked_before_call": lo, "issued_before_return": hi, "matched_prefix": match, "steps": res.Steps, "cfg": p.Cfg}
	return res
}

// ---------------------------------------------------------------------------------------------
// multiplexer: a property served by several engines.

type multiEngine struct {
	engines map[string]Engine
	order   []string
	weights []int
}

func (m multiEngine) Generate(rng *rand.Rand, prop string, thorough bool) *Plan {
	total := 0
	for _, w := range m.weights {
		total += w
	}
	x := rng.Intn(total)
	for i, w := range m.weights {
		x -= w
		if x < 0 {
			return m.engines[m.order[i]].Generate(rng, prop, thorough)
		}
	}
	panic("unreachable")
}

func (m multiEngine) Execute(p *Plan) *RunResult {
	e, ok := m.engines[p.Engine]
	if !ok {
		panic("no engine " + p.Engine)
	}
	return e.Execute(p)
}

// allowedAfterPowerLoss: per key, the value as of the last completed sync point or any value written
// (deletion made) after it. A Sync covers every write that had returned before the Sync was invoked.
func allowedAfterPowerLoss(hist []*HistEv, keys [][]byte, s int64, syncEveryWrite bool) (map[string]valset, *oracle) {
	o := newOracle()
	var lastSyncInv int64 = -1
	for _, ev := range hist {
		if (ev.Op.K == "sync" || ev.Op.K == "close") && ev.Err == "" && ev.Ret != 0 && ev.Ret < s && ev.Inv > lastSyncInv {
			lastSyncInv = ev.Inv
		}
	}
	al := map[string]valset{}
	wbk := writesByKey(hist, keys)
	for ki, kb := range keys {
		k := string(kb)
		base := mval{}
		var set valset
		for _, w := range wbk[ki] {
			o.history[k] = o.history[k].add(evVal(w))
			covered := w.Ret != 0 && w.Err == "" && ((syncEveryWrite && w.Ret < s) || (lastSyncInv >= 0 && w.Ret < lastSyncInv))
			if covered {
				base = evVal(w)
				set = nil
			} else if w.Inv < s {
				set = set.add(evVal(w))
			}
		}
		al[k] = append(valset{base}, set...)
	}
	return al, o
}

func (c compactEngine) powerLossSweep(p *Plan, cr *concResult, res *RunResult) *RunResult {
	keys := p.KeyBytes()
	j := cr.env.FS.Journal
	rng := rand.New(rand.NewSource(p.Seed ^ 0x3c6ef372))
	// instants: every journal position is a candidate; biased to segment removals, syncs and the writes around them
	var cand []int
	for k := 0; k <= len(j); k++ {
		w := 1
		if k < len(j) && (j[k].Kind == JRemove || j[k].Kind == JSync || j[k].Kind == JCreate) && strings.HasSuffix(j[k].Name, ".psg") {
			w = 6
		}
		for ; w > 0; w-- {
			cand = append(cand, k)
		}
	}
	rng.Shuffle(len(cand), func(a, b int) { cand[a], cand[b] = cand[b], cand[a] })
	seen := map[int]bool{}
	var pts []int
	for _, k := range cand {
		if !seen[k] && len(pts) < 12 {
			seen[k] = true
			pts = append(pts, k)
		}
	}
	sort.Ints(pts)
	rp := NewReplayer(initialOrEmpty(cr.initial))
	applied := 0
	for _, k := range pts {
		for applied < k {
			rp.Apply(&j[applied])
			applied++
		}
		var s int64 = 1 << 60
		if k < len(j) {
			s = cr.stamps[k]
		}
		lr := rand.New(rand.NewSource(p.Seed ^ int64(k)<<20))
		images, fams := powerLossImages(rp, lr, crashPoint{k: k}, j)
		al, o := allowedAfterPowerLoss(cr.hist, keys, s, p.Cfg.SyncMode == 2)
		for ii, im := range images {
			res.Evaluations++
			res.Faults[fams[ii]]++
			res.Faults["power_loss_in_concurrent_run"]++
			res.Hashes = append(res.Hashes, fnvAdd(im.Digest(), []byte("c06c"+fams[ii])))
			if _, v := checkImage(p.Cfg, keys, im, o, al, res.Probes); v != nil {
				desc := "after the last call"
				if k < len(j) {
					desc = fmt.Sprintf("in flight: %s by task %d", j[k], j[k].Task)
				}
				if os.Getenv("VERIF_DEBUG") != "" {
					for _, ev := range cr.hist {
						fmt.Printf("DEBUG hist task%d %s inv=%d ret=%d n=%d err=%q\n", ev.Task, ev.Op.String(), ev.Inv, ev.Ret, ev.N, ev.Err)
					}
					for i := 0; i <= k && i < len(j); i++ {
						if strings.HasSuffix(j[i].Name, ".pix") {
							continue
						}
						fmt.Printf("DEBUG j[%d] stamp=%d task=%d %s\n", i, cr.stamps[i], j[i].Task, j[i])
					}
				}
				v.Detail = fmt.Sprintf("power loss at journal[%d/%d] stamp %d (%s) family=%s: %s", k, len(j), s, desc, fams[ii], v.Detail)
				res.V = v
				return res
			}
		}
	}
	for _, ev := range cr.hist {
		if ev.Op.K == "sync" && ev.Task != 0 {
			res.Probes["sync_calls_in_concurrent_run"]++
		}
	}
	if cr.env.Probes["segment_removed"] > 0 && cr.sim.Switches > 2 {
		res.Probes["writer_ran_during_compaction"] += countWritesDuringCompaction(cr.hist)
	}
	res.NonTrivial = cr.env.Probes["segment_removed"] > 0
	res.Sample = map[string]interface{}{"seed": p.Seed, "tasks": len(p.Tasks), "ops": p.NumOps(), "steps": res.Steps, "power_loss_instants": len(pts), "sync_mode": p.Cfg.SyncMode, "cfg": p.Cfg}
	return res
}

// closedSweep (C09): the concurrent session was closed cleanly by the main task; the next Open is executed (outside
// the scheduler, single task) with the journal still recording. A power failure at any instant from the return of
// Close to the end of that Open must leave a directory that opens to exactly the closed contents.
func (c compactEngine) closedSweep(p *Plan, cr *concResult, res *RunResult) *RunResult {
	keys := p.KeyBytes()
	if cr.closeRet == 0 || cr.closedBy != 0 {
		res.V = violf("close-failed", "the final Close of the concurrent session did not return nil")
		return res
	}
	e := cr.env
	first := len(e.FS.Journal) // Close was the last call of the run: everything from here on belongs to the next Open
	if err := e.Open(); err != nil {
		res.V = violf("open-failed", "Open after the clean Close of the concurrent session: %v", err)
		return res
	}
	if e.lastOpenRecovered {
		res.V = violf("clean-reopen-recovered", "Open after the clean Close of the concurrent session ran recovery")
		return res
	}
	j := e.FS.Journal[:len(e.FS.Journal):len(e.FS.Journal)]
	if err := e.DB.Close(); err != nil {
		res.V = violf("api-error", "Close of the next session: %v", err)
		return res
	}
	al, o := allowedFromHistory(cr.hist, keys, 1<<60)
	rp := NewReplayer(initialOrEmpty(cr.initial))
	applied := 0
	var pts []int
	for k := first; k <= len(j); k++ {
		pts = append(pts, k)
	}
	rng := rand.New(rand.NewSource(p.Seed ^ 0x510e527f))
	if len(pts) > 8 {
		// the first instants (lock file created or not) always, a sample of the rest
		rest := pts[3:]
		rng.Shuffle(len(rest), func(a, b int) { rest[a], rest[b] = rest[b], rest[a] })
		pts = append(pts[:3], rest[:5]...)
		sort.Ints(pts)
	}
	for _, k := range pts {
		for applied < k {
			rp.Apply(&j[applied])
			applied++
		}
		lr := rand.New(rand.NewSource(p.Seed ^ int64(k)<<20))
		images, fams := powerLossImages(rp, lr, crashPoint{k: k}, j)
		for ii, im := range images {
			res.Evaluations++
			res.Faults[fams[ii]]++
			res.Faults["power_loss_after_close_of_concurrent_session"]++
			res.Hashes = append(res.Hashes, fnvAdd(im.Digest(), []byte("c09c"+fams[ii])))
			if _, v := checkImage(p.Cfg, keys, im, o, al, res.Probes); v != nil {
				desc := "after the next Open had returned"
				if k < len(j) {
					desc = fmt.Sprintf("in flight: %s of the next Open", j[k])
				}
				v.Detail = fmt.Sprintf("power loss after the clean Close of a concurrent session, at journal[%d/%d] (%s) family=%s: %s", k, len(j), desc, fams[ii], v.Detail)
				res.V = v
				return res
			}
		}
	}
	if cr.env.Probes["segment_removed"] > 0 && cr.sim.Switches > 2 {
		res.Probes["writer_ran_during_compaction"] += countWritesDuringCompaction(cr.hist)
	}
	res.NonTrivial = cr.env.Probes["segment_removed"] > 0
	res.Sample = map[string]interface{}{"seed": p.Seed, "tasks": len(p.Tasks), "ops": p.NumOps(), "steps": res.Steps, "power_loss_instants": len(pts), "sync_mode": p.Cfg.SyncMode, "cfg": p.Cfg}
	return res
}

func initialOrEmpty(im *Image) *Image {
	if im == nil {
		return NewImage()
	}
	return im
}
