package harness

import (
	"bytes"
	"fmt"
	"math/rand"
	"os"
	"sort"
	"strings"
)

// ---------------------------------------------------------------------------------------------
// Oracle for crash engines: per key, the set of values the recovered database may hold.

type mval struct {
	present bool
	v       []byte
}

func (a mval) eq(b mval) bool { return a.present == b.present && bytes.Equal(a.v, b.v) }

func (a mval) String() string {
	if !a.present {
		return "absent"
	}
	return showVal(a.v)
}

type valset []mval

func (s valset) has(x mval) bool {
	for _, y := range s {
		if y.eq(x) {
			return true
		}
	}
	return false
}

func (s valset) add(x mval) valset {
	if s.has(x) {
		return s
	}
	return append(s[:len(s):len(s)], x)
}

// oracle is the state of knowledge about one database across crashes.
type oracle struct {
	cur        map[string]mval   // resolved logical contents (absent keys are not in the map)
	unresolved map[string]valset // after a crash, before the contents were read back
	durable    map[string]mval   // contents at the last sync point (power-loss model)
	later      map[string]valset // values written (or deletions made) since the last sync point
	history    map[string]valset // every value ever written to the key (for classification)
}

func newOracle() *oracle {
	return &oracle{cur: map[string]mval{}, unresolved: map[string]valset{}, durable: map[string]mval{}, later: map[string]valset{}, history: map[string]valset{}}
}

func (o *oracle) clone() *oracle {
	n := newOracle()
	for k, v := range o.cur {
		n.cur[k] = v
	}
	for k, v := range o.unresolved {
		n.unresolved[k] = v
	}
	for k, v := range o.durable {
		n.durable[k] = v
	}
	if o.durable == nil {
		n.durable = nil // still to be set by resolve
	}
	for k, v := range o.later {
		n.later[k] = v
	}
	for k, v := range o.history {
		n.history[k] = v
	}
	return n
}

func (o *oracle) write(k string, v mval) {
	if v.present {
		o.cur[k] = v
	} else {
		delete(o.cur, k)
	}
	o.later[k] = o.later[k].add(v)
	o.history[k] = o.history[k].add(v)
}

func (o *oracle) syncPoint() {
	o.durable = map[string]mval{}
	for k, v := range o.cur {
		o.durable[k] = v
	}
	o.later = map[string]valset{}
}

// opEffect returns the key and value an operation writes, if any.
func opEffect(op Op, keys [][]byte) (string, mval, bool) {
	switch op.K {
	case "put":
		return string(keys[op.Key%len(keys)]), mval{true, MakeValue(0, op.ID, op.Size)}, true
	case "del":
		return string(keys[op.Key%len(keys)]), mval{}, true
	}
	return "", mval{}, false
}

// allowed computes, for a crash while `inflight` (may be nil) was executing on state o, the values
// each key may hold after recovery.
func (o *oracle) allowed(keys [][]byte, inflight *Op, powerLoss bool) map[string]valset {
	out := map[string]valset{}
	for _, kb := range keys {
		k := string(kb)
		var s valset
		if u, ok := o.unresolved[k]; ok {
			s = append(s, u...)
		} else if !powerLoss {
			s = s.add(o.cur[k]) // zero mval = absent
		}
		if powerLoss {
			if o.durable != nil {
				s = s.add(o.durable[k])
			}
			for _, v := range o.later[k] {
				s = s.add(v)
			}
		}
		out[k] = s
	}
	if inflight != nil {
		if k, v, ok := opEffect(*inflight, keys); ok {
			out[k] = out[k].add(v)
		}
	}
	return out
}

// afterCrash derives the oracle the next epoch starts with.
func (o *oracle) afterCrash(keys [][]byte, inflight *Op, powerLoss bool) *oracle {
	n := o.clone()
	al := o.allowed(keys, inflight, powerLoss)
	n.unresolved = al
	if inflight != nil {
		if k, v, ok := opEffect(*inflight, keys); ok {
			n.later[k] = n.later[k].add(v)
			n.history[k] = n.history[k].add(v)
		}
	}
	if powerLoss {
		n.later = map[string]valset{}
		n.durable = nil // set at resolve
	}
	return n
}

func (o *oracle) resolve(obs map[string]mval) {
	o.cur = map[string]mval{}
	for k, v := range obs {
		if v.present {
			o.cur[k] = v
		}
	}
	o.unresolved = map[string]valset{}
	if o.durable == nil {
		o.durable = map[string]mval{}
		for k, v := range o.cur {
			o.durable[k] = v
		}
	}
}

// classify names the way an observed value is wrong.
func (o *oracle) classify(k string, got mval, al valset) string {
	if got.present && !o.history[k].has(got) {
		return "value-never-written"
	}
	if !got.present {
		return "acked-write-lost"
	}
	want := al[len(al)-1]
	if !want.present || (len(al) == 1 && !al[0].present) {
		return "deleted-key-resurrected"
	}
	return "stale-value"
}

// ---------------------------------------------------------------------------------------------

type crashEngine struct{}

type sessionRec struct {
	env     *Env
	ops     []Op          // by API index-1
	snaps   []*oracle     // oracle before API call i (index i-1); one extra entry = final state
	syncRet []bool
	initial *Image
}

// runSession executes ops on env (already positioned on its image), strictly checked against the
// model, recording oracle snapshots per API call. The first op must be "open".
func runSession(e *Env, o *oracle, ops []Op, mode string) (*sessionRec, *Violation) {
	rec := &sessionRec{env: e}
	cur := o
	e.OnAPI = func(idx int, op Op) {
		rec.ops = append(rec.ops, op)
		rec.snaps = append(rec.snaps, cur.clone())
	}
	open := false
	for i, op := range ops {
		if !open && op.K != "open" {
			continue
		}
		if open && op.K == "open" {
			continue
		}
		if e.IOFaultSeen && op.K == "close" {
			// After a record append failed part-way, the unchanged pogreb keeps the stored part behind the
			// logical end of the segment and overwrites it with the next record - but a clean Close/Open
			// takes the file length, garbage included, as the end of the log, and everything written after
			// that is lost at the next recovery. That is behaviour after a failed file-system call, which no
			// listed property covers; the session with an injected error therefore stays open until its crash
			// (recovery then cuts the garbage off), and everything acknowledged in it is checked as usual.
			continue
		}
		wasUnresolved := len(cur.unresolved) > 0 && op.K == "open"
		v := e.Do(op)
		if v != nil && !(wasUnresolved && v.Class == "open-failed") {
			v.Detail = fmt.Sprintf("live session op#%d %s: %s", i, op, v.Detail)
			return rec, v
		}
		if v != nil {
			v.Class = "open-failed-after-crash"
			return rec, v
		}
		switch op.K {
		case "open":
			open = true
			if wasUnresolved {
				// read everything back, check it against the allowed sets, adopt it as the model
				obs, vv := observe(e, cur, cur.unresolved)
				if vv != nil {
					vv.Detail = "after recovery at the start of the epoch: " + vv.Detail
					return rec, vv
				}
				cur.resolve(obs)
				e.Model = NewModel()
				for k, mv := range cur.cur {
					e.Model.M[k] = mv.v
				}
				if vv := e.CheckContents(); vv != nil {
					vv.Class = "recovered-" + vv.Class
					return rec, vv
				}
				if vv := e.CheckStructure(false); vv != nil {
					vv.Class = "recovered-" + vv.Class
					return rec, vv
				}
			}
		case "close":
			open = false
			if e.UncleanClose {
				// Close failed with the injected error: not a checkpoint; the next Open recovers
				cur.unresolved = cur.allowed(e.Keys, nil, false)
				e.UncleanClose = false
				break
			}
			cur.syncPoint() // C09: a clean Close is a durable checkpoint
			if vv := e.CheckStructure(true); vv != nil {
				return rec, vv
			}
		case "put", "del":
			k, mv, _ := opEffect(op, e.Keys)
			now, ok := e.Model.Get([]byte(k))
			if (mval{ok, now}).eq(mv) {
				cur.write(k, mv)
			} else {
				// the write failed with the injected I/O error and was not applied; it stays a value the
				// key was "given" (classification of a later mismatch), nothing else
				cur.history[k] = cur.history[k].add(mv)
			}
			if e.Cfg.SyncMode == 2 && !e.LastWriteFailed {
				cur.syncPoint() // a write that returned an error did not reach its sync
			}
		case "sync":
			if !e.LastWriteFailed {
				cur.syncPoint() // a Sync that returned the injected error is not a sync point
			}
		}
	}
	rec.snaps = append(rec.snaps, cur.clone())
	e.OnAPI = nil
	return rec, nil
}

// observe reads every key of the universe from the open database and checks it against the
// allowed sets.
func observe(e *Env, o *oracle, al map[string]valset) (map[string]mval, *Violation) {
	obs := map[string]mval{}
	for i, kb := range e.Keys {
		got, err := e.DB.Get(kb)
		if err != nil {
			return nil, violf("api-error-after-recovery", "Get(k%d): %v", i, err)
		}
		mv := mval{present: got != nil, v: got}
		k := string(kb)
		if !al[k].has(mv) {
			return nil, violf(o.classify(k, mv, al[k]), "key k%d=%s reads %s after recovery; allowed: %v", i, clip(kb), mv, al[k])
		}
		obs[k] = mv
	}
	return obs, nil
}

// checkImage opens the database on the image with the real recovery code and checks everything
// readable against the allowed sets. It returns the observed contents.
func checkImage(cfg Cfg, keys [][]byte, img *Image, o *oracle, al map[string]valset, probes Probes) (map[string]mval, *Violation) {
	return checkImageWal(cfg, keys, img, o, al, probes, false)
}

// checkImageWal: walLoose relaxes the log-versus-contents cross-check to "log value is an allowed
// value of the key" (see Env.WalAllowed); everything read through the API is checked as usual.
func checkImageWal(cfg Cfg, keys [][]byte, img *Image, o *oracle, al map[string]valset, probes Probes, walLoose bool) (map[string]mval, *Violation) {
	e := NewEnv(cfg, keys, img, false)
	if walLoose {
		e.WalAllowed = al
	}
	e.NoRetain = true
	defer func() { probes.Add(e.Probes) }()
	if err := e.Open(); err != nil {
		return nil, violf("open-failed-after-crash", "Open on the crash image: %v", err)
	}
	if e.lastOpenRecovered {
		probes["recovery_ran"]++
	}
	obs, v := observe(e, o, al)
	if v != nil {
		return nil, v
	}
	e.Model = NewModel()
	for k, mv := range obs {
		if mv.present {
			e.Model.M[k] = mv.v
		}
	}
	if v := e.CheckContents(); v != nil {
		v.Class = "recovered-" + v.Class
		return nil, v
	}
	if v := e.CheckStructure(false); v != nil {
		v.Class = "recovered-" + v.Class
		return nil, v
	}
	return obs, nil
}

type crashPoint struct {
	k   int   // journal index: entries < k are applied
	cut int64 // >0: entry k is a write applied up to this file offset
}

func apiOfPoint(rec *sessionRec, j []JEntry, k int) (snap *oracle, inflight *Op) {
	if k >= len(j) {
		return rec.snaps[len(rec.snaps)-1], nil
	}
	a := j[k].API // 1-based
	if a-1 < len(rec.ops) {
		op := rec.ops[a-1]
		return rec.snaps[a-1], &op
	}
	return rec.snaps[len(rec.snaps)-1], nil
}

func pointClass(j []JEntry, rec *sessionRec, pt crashPoint) string {
	if pt.k >= len(j) {
		return "end"
	}
	e := j[pt.k]
	op := "?"
	if e.API-1 < len(rec.ops) {
		op = rec.ops[e.API-1].K
	}
	fk := "other"
	switch {
	case strings.HasSuffix(e.Name, ".psg"):
		fk = "segment"
	case strings.HasSuffix(e.Name, ".pix"):
		fk = "index"
	case strings.HasSuffix(e.Name, ".pmt"):
		fk = "meta"
	case strings.HasSuffix(e.Name, "lock"):
		fk = "lock"
	case strings.HasSuffix(e.Name, ".bac"):
		fk = "bac"
	}
	t := ""
	if pt.cut > 0 {
		t = "/torn"
	}
	return op + "/" + e.Kind.String() + "/" + fk + t
}

func crashWeights(prop string, rng *rand.Rand) map[string]int {
	w := map[string]int{"put": 50, "del": 18, "get": 2, "geta": 0, "has": 1, "count": 1, "items": 1, "sync": 4, "compact": 8, "close": 3, "filesize": 0}
	switch rng.Intn(3) {
	case 0:
		w["compact"] = 16
		w["del"] = 30
	case 1:
		w["close"] = 8
	}
	if prop == "C05" {
		w["compact"] = 20
		w["del"] = 30
		w["close"] = 1
	}
	if prop == "C06" {
		w["close"] = 0
		w["sync"] = 10
		w["compact"] = 12
	}
	if prop == "C09" {
		w["close"] = 6
	}
	return w
}

// generateColdChain (C04, 1 run in 6): a three-session chain built around segment metadata that has to survive the
// hand-over recovery -> clean Close -> ordinary Open. Session 1 fills older segments with live-only puts of "cold"
// keys, then writes delete records for some of them next to puts of other keys into a later segment B and rolls
// the log over; the process dies. Session 2 recovers, closes cleanly, opens again (no recovery), overwrites B's own
// puts (B becomes eligible for compaction), compacts; the process dies. Whatever is recovered then must not hold
// the deleted keys: B's delete records may only have been dropped together with the older puts.
func generateColdChain(rng *rand.Rand, prop string, cfg Cfg) *Plan {
	nc, nu := 5+rng.Intn(4), 3+rng.Intn(4)
	cfg.NKeys = nc + nu + 1
	cfg.Family = []int{int(KFTiny), int(KFMixed)}[rng.Intn(2)]
	cfg.MaxSeg = []uint32{1024, 2048}[rng.Intn(2)]
	cfg.CompMinSeg = 1
	cfg.CompFrag = []float32{0.1, 0.2, 0.3}[rng.Intn(3)]
	cfg.ContAtEnd = true
	p := &Plan{Property: prop, Engine: "crash", Cfg: cfg}
	keys := GenKeys(rng, KeyFamily(cfg.Family), cfg.NKeys, cfg.HashSeed)
	if len(keys) < cfg.NKeys {
		nu = len(keys) - nc - 1
		if nu < 1 {
			return nil
		}
	}
	p.Cfg.NKeys = len(keys)
	p.SetKeys(keys)
	hot := nc + nu
	id := 0
	put := func(k, size int) Op { id++; return Op{K: "put", Key: k, ID: id, Size: size} }
	e1 := []Op{{K: "open"}}
	for k := 0; k < nc; k++ {
		e1 = append(e1, put(k, []int{100, 200}[rng.Intn(2)]))
	}
	// roll over so that what follows starts in a later segment
	e1 = append(e1, put(hot, 200), put(hot, 200), put(hot, 200))
	nd := 1 + rng.Intn(3)
	for i, u := 0, 0; i < nd || u < nu; {
		if i < nd && (u >= nu || rng.Intn(2) == 0) {
			e1 = append(e1, Op{K: "del", Key: rng.Intn(nc)})
			i++
		} else {
			e1 = append(e1, put(nc+u, []int{60, 100}[rng.Intn(2)]))
			u++
		}
	}
	for n := 3 + rng.Intn(4); n > 0; n-- {
		e1 = append(e1, put(hot, 200))
	}
	if rng.Intn(2) == 0 {
		e1 = append(e1, Op{K: "sync"})
	}
	e2 := []Op{{K: "open"}}
	if rng.Intn(4) != 0 {
		e2 = append(e2, Op{K: "close"}, Op{K: "open"})
	}
	for u := 0; u < nu; u++ {
		if rng.Intn(5) != 0 {
			e2 = append(e2, put(nc+u, []int{8, 16}[rng.Intn(2)]))
		}
	}
	e2 = append(e2, Op{K: "compact"})
	for n := rng.Intn(3); n > 0; n-- {
		e2 = append(e2, []Op{{K: "count"}, {K: "items"}, put(hot, 60), {K: "compact"}}[rng.Intn(4)])
	}
	e3 := []Op{{K: "open"}, {K: "count"}, {K: "items"}}
	p.Epochs = [][]Op{e1, e2, e3}
	return p
}

func (crashEngine) Generate(rng *rand.Rand, prop string, thorough bool) *Plan {
	cfg := GenCfg(rng)
	if prop == "C04" && rng.Intn(6) == 0 {
		if p := generateColdChain(rng, prop, cfg); p != nil {
			return p
		}
	}
	cfg.NKeys = []int{2, 3, 5, 8, 16, 33, 40}[rng.Intn(7)]
	if cfg.Family == int(KFLengths) {
		cfg.Family = int(KFTiny)
	}
	if prop == "C06" && cfg.SyncMode == 0 && rng.Intn(4) != 0 {
		cfg.SyncMode = 1 + rng.Intn(2)
	}
	p := &Plan{Property: prop, Engine: "crash", Cfg: cfg}
	keys := GenKeys(rng, KeyFamily(cfg.Family), cfg.NKeys, cfg.HashSeed)
	p.Cfg.NKeys = len(keys)
	cfg.NKeys = len(keys)
	p.SetKeys(keys)
	sizes := []int{0, 1, 8, 16, 16, 60, 200, 490, 506, 512, 600, 1100, 4090}
	g := GenOpts{MinOps: 3, MaxOps: 40, Weights: crashWeights(prop, rng), Sessions: true, Sizes: sizes}
	if thorough {
		g.MaxOps = 80
	}
	nEpochs := 1
	switch prop {
	case "C04":
		nEpochs = 2 + rng.Intn(3)
		g.MaxOps = 25
	case "C06":
		nEpochs = 1 + rng.Intn(3)
		g.MaxOps = 30
		g.Sessions = false
	case "C09":
		g.MaxOps = 30
	}
	id := 0
	for e := 0; e < nEpochs; e++ {
		ops := append([]Op{{K: "open"}}, GenSeqOps(rng, cfg, g, &id)...)
		if prop == "C06" && rng.Intn(4) == 0 {
			// an fsync of a segment fails (EIO): before an explicit Sync, or (sync-after-every-write) inside a write
			var pos []int
			for i, op := range ops {
				if (cfg.SyncMode == 1 && op.K == "sync") || (cfg.SyncMode == 2 && (op.K == "put" || op.K == "del")) {
					pos = append(pos, i)
				}
			}
			if len(pos) > 0 {
				i := pos[rng.Intn(len(pos))]
				ops = append(ops[:i:i], append([]Op{{K: "syncfail"}}, ops[i:]...)...)
			}
		}
		if (prop == "C03" || prop == "C04" || prop == "C05" || prop == "C06") && rng.Intn(3) == 0 {
			// injected I/O errors: the record append of 1-2 writes fails with ENOSPC after part of it was stored
			for n := 1 + rng.Intn(2); n > 0; n-- {
				var pos []int
				for i, op := range ops {
					if (op.K == "put" || op.K == "del") && (i == 0 || (ops[i-1].K != "iofail" && ops[i-1].K != "syncfail")) {
						pos = append(pos, i)
					}
				}
				if len(pos) == 0 {
					break
				}
				i := pos[rng.Intn(len(pos))]
				ops = append(ops[:i:i], append([]Op{{K: "iofail", Size: rng.Intn(4096)}}, ops[i:]...)...)
			}
		}
		if prop == "C09" && rng.Intn(3) == 0 {
			// a maintenance-only last session: Compact (and reads) without any write, then the clean Close
			if !openAt(ops, len(ops)) {
				ops = append(ops, Op{K: "open"})
			}
			ops = append(ops, Op{K: "close"}, Op{K: "open"})
			for n := 1 + rng.Intn(3); n > 0; n-- {
				ops = append(ops, []Op{{K: "compact"}, {K: "get", Key: rng.Intn(cfg.NKeys)}, {K: "sync"}, {K: "count"}}[rng.Intn(4)])
			}
			ops = append(ops, Op{K: "compact"})
		}
		if prop == "C09" {
			// end with a clean close and the next open
			if !openAt(ops, len(ops)) {
				ops = append(ops, Op{K: "open"})
			}
			ops = append(ops, Op{K: "close"}, Op{K: "open"})
			if rng.Intn(2) == 0 {
				ops = append(ops, Op{K: "get", Key: 0})
			}
		}
		p.Epochs = append(p.Epochs, ops)
	}
	return p
}

func (crashEngine) Execute(p *Plan) *RunResult {
	res := newResult()
	res.Evaluations = 0
	keys := p.KeyBytes()
	rng := rand.New(rand.NewSource(p.Seed ^ 0x6a09e667))
	img := NewImage()
	o := newOracle()
	o.syncPoint()
	hashes := map[uint64]bool{}
	defer func() {
		for h := range hashes {
			res.Hashes = append(res.Hashes, h)
		}
	}()
	maxPoints := 400
	if p.Property == "C04" || isPLProp(p.Property) {
		maxPoints = 60
	}
	isPL := p.Property == "C06" || p.Property == "C09"
	var contLog []Fault // continuation point of every finished epoch, in order
	for ei, ops := range p.Epochs {
		last := ei == len(p.Epochs)-1
		// C06 chains: earlier epochs may end in a mere process crash (the page cache survives)
		powerLoss := isPL && (last || rng.Intn(2) == 0)
		// replay: the continuation point of an earlier epoch is recorded in the plan, so that a replay
		// does not depend on how the candidate list of that epoch is enumerated and sampled
		var contPin *crashPoint
		for _, f := range p.Faults {
			if ep, ok := f.Extra["epoch"]; ok && int(ep.(float64)) == ei && f.Kind == "cont" {
				contPin = &crashPoint{k: f.Point, cut: f.Cut}
				if pl, ok := f.Extra["ploss"].(bool); ok {
					powerLoss = pl
				}
			}
		}
		e := NewEnv(p.Cfg, keys, img, true)
		e.NoRetain = true
		rec, v := runSession(e, o, ops, p.Property)
		res.Probes.Add(e.Probes)
		if v != nil {
			res.V = v
			return res
		}
		j := e.FS.Journal
		if len(j) == 0 {
			continue
		}
		// enumerate candidate points
		var pts []crashPoint
		for k := 0; k <= len(j); k++ {
			if !powerLoss && !isPL && k < len(j) && (j[k].Kind == JSync || j[k].Kind == JLock) {
				// A sync or lock call in flight changes nothing a process crash can see: the image equals
				// the one of point k+1. Keep k+1: its oracle is the same or stricter (when k is the last
				// FS call of its API call, that call is acknowledged at k+1 and merely in flight at k).
				continue
			}
			if !powerLoss && isPL && k > 0 && k < len(j) && (j[k-1].Kind == JSync || j[k-1].Kind == JLock) {
				// chains that go on to a power loss: same visible image as the previous point; keep the
				// one with the sync still in flight (more volatile state for the next epoch)
				continue
			}
			pts = append(pts, crashPoint{k: k})
			if k < len(j) && j[k].Kind == JWrite {
				for _, c := range TornCuts(j[k].Off, len(j[k].Data)) {
					pts = append(pts, crashPoint{k: k, cut: c})
				}
			}
		}
		filter := func(pt crashPoint) bool {
			switch p.Property {
			case "C05":
				if pt.k >= len(j) {
					return true
				}
				a := j[pt.k].API
				return a-1 < len(rec.ops) && (rec.ops[a-1].K == "compact" || (a >= 2 && rec.ops[a-2].K == "compact"))
			case "C09":
				// only instants from the return of the last Close on
				lastClose := -1
				for i, op := range rec.ops {
					if op.K == "close" {
						lastClose = i + 1
					}
				}
				if lastClose < 0 {
					return false
				}
				if pt.k >= len(j) {
					return true
				}
				return j[pt.k].API > lastClose
			}
			return true
		}
		var cand []crashPoint
		for _, pt := range pts {
			if filter(pt) {
				cand = append(cand, pt)
			}
		}
		// pinned fault (replay)?
		var chosen []crashPoint
		pinned := false
		for _, f := range p.Faults {
			if ep, ok := f.Extra["epoch"]; ok && int(ep.(float64)) == ei && f.Kind != "cont" {
				pt := crashPoint{k: f.Point, cut: f.Cut}
				pinned = true
				if pt.k > len(j) || (pt.cut > 0 && (pt.k >= len(j) || j[pt.k].Kind != JWrite || pt.cut <= j[pt.k].Off || pt.cut >= j[pt.k].Off+int64(len(j[pt.k].Data)))) {
					return res // the pinned point does not exist in this (shrunken) plan
				}
				chosen = append(chosen, pt)
			}
		}
		if !pinned {
			if len(cand) > maxPoints {
				rng.Shuffle(len(cand), func(a, b int) { cand[a], cand[b] = cand[b], cand[a] })
				cand = cand[:maxPoints]
				sort.Slice(cand, func(a, b int) bool {
					if cand[a].k != cand[b].k {
						return cand[a].k < cand[b].k
					}
					return cand[a].cut < cand[b].cut
				})
			}
			chosen = cand
		}
		if len(chosen) == 0 {
			if last {
				break
			}
			chosen = []crashPoint{{k: len(j)}}
		}
		// which point continues the chain
		cont := chosen[rng.Intn(len(chosen))]
		if !last && !pinned {
			// bias: inside the recovering Open of a later epoch, or a torn write
			var inOpen, torn []crashPoint
			for _, pt := range chosen {
				if pt.k < len(j) && j[pt.k].API == 1 && ei > 0 {
					inOpen = append(inOpen, pt)
				}
				if pt.cut > 0 {
					torn = append(torn, pt)
				}
			}
			switch r := rng.Intn(10); {
			case r < 3 && len(inOpen) > 0:
				cont = inOpen[rng.Intn(len(inOpen))]
			case r < 6 && len(torn) > 0:
				cont = torn[rng.Intn(len(torn))]
			}
		}
		if p.Cfg.ContAtEnd && !last && !pinned && contPin == nil {
			cont = crashPoint{k: len(j)}
			have := false
			for _, pt := range chosen {
				if pt == cont {
					have = true
				}
			}
			if !have {
				chosen = append(chosen, cont)
			}
		}
		if contPin != nil && !pinned {
			pt := *contPin
			if pt.k > len(j) || (pt.cut > 0 && (pt.k >= len(j) || j[pt.k].Kind != JWrite || pt.cut <= j[pt.k].Off || pt.cut >= j[pt.k].Off+int64(len(j[pt.k].Data)))) {
				return res // the recorded continuation point does not exist in this (shrunken) plan
			}
			cont = pt
			chosen = []crashPoint{pt}
		}
		if !last {
			contLog = append(contLog, Fault{Kind: "cont", Point: cont.k, Cut: cont.cut, Extra: map[string]interface{}{"epoch": float64(ei), "ploss": powerLoss}})
		}
		// sweep
		rp := NewReplayer(rec.initialOr(img))
		applied := 0
		var contImg *Image
		var contOracle *oracle
		for _, pt := range chosen {
			for applied < pt.k {
				rp.Apply(&j[applied])
				applied++
			}
			snap, inflight := apiOfPoint(rec, j, pt.k)
			var images []*Image
			var famNames []string
			if !powerLoss {
				var torn *JEntry
				if pt.cut > 0 {
					torn = &j[pt.k]
				}
				images = append(images, rp.ProcessCrashImage(torn, pt.cut))
				famNames = append(famNames, "pcrash")
			} else {
				lr := rand.New(rand.NewSource(p.Seed ^ int64(ei)<<40 ^ int64(pt.k)<<16 ^ pt.cut))
				images, famNames = powerLossImages(rp, lr, pt, j)
			}
			al := snap.allowed(keys, inflight, powerLoss)
			for ii, im := range images {
				res.Evaluations++
				res.Faults[famNames[ii]]++
				if pt.cut > 0 {
					res.Faults["torn_write"]++
				}
				cls := pointClass(j, rec, pt) + "/" + famNames[ii]
				res.Probes["pt:"+cls]++
				hashes[fnvAdd(im.Digest(), []byte(cls))] = true
				obs, v := checkImage(p.Cfg, keys, im, snap, al, res.Probes)
				if v != nil {
					v.Detail = fmt.Sprintf("epoch %d, crash at journal[%d/%d] (%s) cut=%d family=%s: %s", ei, pt.k, len(j), describePoint(j, rec, pt), pt.cut, famNames[ii], v.Detail)
					res.V = v
					if pinned {
						p.Faults = append(p.Faults[:0:0], p.Faults...)
					} else {
						// earlier epochs: their continuation points; this epoch: the failing point
						p.Faults = nil
						for _, cf := range contLog {
							if int(cf.Extra["epoch"].(float64)) < ei {
								p.Faults = append(p.Faults, cf)
							}
						}
						p.Faults = append(p.Faults, Fault{Kind: famNames[ii], Point: pt.k, Cut: pt.cut, Extra: map[string]interface{}{"epoch": float64(ei)}})
					}
					return res
				}
				if pt == cont && ii == len(images)-1 {
					contImg = im
					contOracle = snap.afterCrash(keys, inflight, powerLoss)
					_ = obs
					// idempotence: recovering the same image again (other hash seeds) gives the same contents
					if p.Property == "C04" {
						cfg2 := p.Cfg
						cfg2.HashSeed ^= 0x55aa55aa
						obs2, v2 := checkImage(cfg2, keys, im, snap, al, res.Probes)
						if v2 != nil {
							v2.Detail = "second recovery of the same image: " + v2.Detail
							res.V = v2
							return res
						}
						for k, mv := range obs {
							if !obs2[k].eq(mv) {
								res.V = violf("recovery-not-idempotent", "epoch %d point %d: key %s is %s after one recovery of the image and %s after another", ei, pt.k, clip([]byte(k)), mv, obs2[k])
								return res
							}
						}
						res.Evaluations++
					}
				}
			}
		}
		if last || contImg == nil {
			break
		}
		if os.Getenv("VERIF_DEBUG") != "" {
			fmt.Printf("DEBUG epoch %d: continue at journal[%d/%d] cut=%d powerLoss=%v %s\n", ei, cont.k, len(j), cont.cut, powerLoss, describePoint(j, rec, cont))
			for n, st := range contImg.Files {
				fmt.Printf("DEBUG   file %s durable=%d pending=%d cur=%d\n", n, len(st.Durable), len(st.Pending), len(st.Cur()))
			}
			for k, al := range contOracle.unresolved {
				fmt.Printf("DEBUG   allowed %x: %v\n", k, al)
			}
		}
		img = contImg
		o = contOracle
		res.Probes["chain_epochs"]++
	}
	res.NonTrivial = res.Evaluations > 0
	res.Sample = map[string]interface{}{"seed": p.Seed, "epochs": len(p.Epochs), "ops_first_epoch": opsString(p.Epochs[0], 14), "points_evaluated": res.Evaluations, "cfg": p.Cfg}
	return res
}

func (r *sessionRec) initialOr(img *Image) *Image { return img }

func opsString(ops []Op, n int) []string {
	var s []string
	for i, o := range ops {
		if i >= n {
			s = append(s, "...")
			break
		}
		s = append(s, o.String())
	}
	return s
}

func describePoint(j []JEntry, rec *sessionRec, pt crashPoint) string {
	if pt.k >= len(j) {
		return "after the last call"
	}
	e := j[pt.k]
	op := "?"
	if e.API-1 < len(rec.ops) {
		op = fmt.Sprintf("api#%d %s", e.API, rec.ops[e.API-1])
	}
	return fmt.Sprintf("in flight: %s of %s", e, op)
}

// powerLossImages returns the systematic prefix families plus random ones for one instant.
func powerLossImages(rp *Replayer, rng *rand.Rand, pt crashPoint, j []JEntry) ([]*Image, []string) {
	var images []*Image
	var names []string
	// the in-flight call (if any) is either not issued or, being volatile anyway, part of pending: model
	// "issued" by applying it for the families that keep data.
	add := func(name string, ch PowerLossChoice) {
		images = append(images, rp.PowerLossImage(ch))
		names = append(names, name)
	}
	add("ploss-all-pending-lost", func(n string, st *FileState) (int, int64) { return 0, -1 })
	add("ploss-all-pending-kept", func(n string, st *FileState) (int, int64) { return len(st.Pending), -1 })
	// exactly one file loses everything
	var dirty []string
	for n, ino := range rp.names {
		if len(rp.inos[ino].st.Pending) > 0 {
			dirty = append(dirty, n)
		}
	}
	sort.Strings(dirty)
	if len(dirty) > 1 {
		if len(dirty) > 3 {
			rng.Shuffle(len(dirty), func(a, b int) { dirty[a], dirty[b] = dirty[b], dirty[a] })
			dirty = dirty[:3]
		}
		for _, d := range dirty {
			d := d
			add("ploss-one-file-loses-all", func(n string, st *FileState) (int, int64) {
				if n == d {
					return 0, -1
				}
				return len(st.Pending), -1
			})
			add("ploss-one-file-keeps-all", func(n string, st *FileState) (int, int64) {
				if n == d {
					return len(st.Pending), -1
				}
				return 0, -1
			})
		}
	}
	for r := 0; r < 2; r++ {
		seed := rng.Int63()
		add("ploss-random-prefixes", func(n string, st *FileState) (int, int64) {
			lr := rand.New(rand.NewSource(seed ^ int64(murmur3([]byte(n), 7))))
			if len(st.Pending) == 0 {
				return 0, -1
			}
			keep := lr.Intn(len(st.Pending) + 1)
			cut := int64(-1)
			if keep > 0 && !st.Pending[keep-1].Trunc {
				op := st.Pending[keep-1]
				cuts := TornCuts(op.Off, len(op.Data))
				if len(cuts) > 0 && lr.Intn(2) == 0 {
					cut = cuts[lr.Intn(len(cuts))] - op.Off
				}
			}
			return keep, cut
		})
	}
	return images, names
}

func isPLProp(p string) bool { return p == "C06" || p == "C09" }
