package harness

import (
	"bytes"
	"encoding/binary"
	"fmt"
	"hash/crc32"
	"math/rand"
	"os"
	"runtime"
	"runtime/debug"
	"sort"
)

// damageEngine: C08 (damaged tails) and C19 (garbage length fields).
//
// A valid multi-segment image is produced by a seeded history and left unclean (lock file
// present). Damage is then applied to the tail of one or several segments and the real
// recovering Open is compared with the independent decoder.

type damageEngine struct{}

type damage struct {
	Seg    string `json:"seg"`
	Kind   string `json:"kind"`
	Off    int64  `json:"off"`    // truncation length / bit index / unused
	Data   string `json:"data"`   // hex of appended bytes
	RecIdx int    `json:"rec"`    // record the flip is aimed at
}

var hugeRuns int

func (damageEngine) Generate(rng *rand.Rand, prop string, thorough bool) *Plan {
	if prop == "C19" && os.Getenv("VERIF_BIG") != "" {
		hugeRuns++
		if hugeRuns == 1 || (thorough && hugeRuns%60 == 0) {
			// a segment of more than 2 GiB (procedural content, not held in memory) with a garbage header at its tail
			p := &Plan{Property: prop, Engine: "huge", Cfg: Cfg{HashSeed: rng.Uint32(), MaxSeg: 1 << 31, CompMinSeg: 1 << 30, CompFrag: 0.5}}
			p.SetKeys([][]byte{[]byte("big")})
			var ops []Op
			for _, vl := range []int64{1 << 31, 1<<31 + 4096, 1<<32 - 70000, 1<<32 - 1, 1<<31 - 1, 1<<31 - 6000, rng.Int63n(1 << 32)} {
				kl := []int{0, 1, 255, 65535, rng.Intn(65536)}[rng.Intn(5)]
				ops = append(ops, Op{K: "huge-header", Key: kl, ID: int(vl >> 16), Size: int(vl & 0xffff)})
			}
			p.Tasks = [][]Op{ops}
			return p
		}
	}
	cfg := GenCfg(rng)
	cfg.NKeys = []int{2, 4, 8, 16}[rng.Intn(4)]
	if cfg.Family == int(KFLengths) || cfg.Family == int(KFFull32) {
		cfg.Family = int(KFTiny)
	}
	cfg.MaxSeg = []uint32{700, 1024, 2048, 4096, 8192, 20000}[rng.Intn(6)]
	p := &Plan{Property: prop, Engine: "damage", Cfg: cfg}
	keys := GenKeys(rng, KeyFamily(cfg.Family), cfg.NKeys, cfg.HashSeed)
	p.Cfg.NKeys = len(keys)
	cfg.NKeys = len(keys)
	p.SetKeys(keys)
	w := map[string]int{"put": 60, "del": 15, "get": 1, "geta": 0, "has": 0, "count": 0, "items": 0, "sync": 1, "compact": 4, "close": 2, "filesize": 0}
	sizes := []int{0, 1, 3, 8, 16, 30, 60, 200, 480, 490, 500, 506, 512, 1000, 3500, 4070, 4090, 4096}
	g := GenOpts{MinOps: 2, MaxOps: 40, Weights: w, Sessions: true, Sizes: sizes}
	id := 0
	p.Tasks = [][]Op{GenSeqOps(rng, cfg, g, &id)}
	return p
}

// buildUncleanImage runs the history and returns the image a process crash at the end leaves.
func buildUncleanImage(p *Plan) (*Env, *Image, *Violation) {
	e := NewEnv(p.Cfg, p.KeyBytes(), nil, false)
	e.NoRetain = true
	if err := e.Open(); err != nil {
		return e, nil, violf("open-failed", "first Open: %v", err)
	}
	open := true
	for i, op := range p.Tasks[0] {
		if !open && op.K != "open" {
			continue
		}
		if open && op.K == "open" {
			continue
		}
		if v := e.Do(op); v != nil {
			v.Detail = fmt.Sprintf("building the image, op#%d %s: %s", i, op, v.Detail)
			return e, nil, v
		}
		if op.K == "close" {
			open = false
		}
		if op.K == "open" {
			open = true
		}
	}
	if !open {
		if err := e.Open(); err != nil {
			return e, nil, violf("open-failed", "Open: %v", err)
		}
	}
	return e, e.FS.Snapshot(), nil
}

func segNames(im *Image) []SegName {
	segs, _ := ListSegments(ImageFiles(im), dbDir)
	return segs
}

// boundedGarbage returns n random bytes whose leading record header claims at most maxClaim bytes.
func boundedGarbage(rng *rand.Rand, n int, maxClaim uint32) []byte {
	b := make([]byte, n)
	rng.Read(b)
	if n >= 6 {
		binary.LittleEndian.PutUint16(b[0:2], uint16(rng.Intn(2000)))
		v := uint32(rng.Intn(int(maxClaim)))
		if rng.Intn(2) == 0 {
			v |= 1 << 31
		}
		binary.LittleEndian.PutUint32(b[2:6], v)
	} else if n >= 2 {
		b[1] &= 0x07
	}
	return b
}

func encodeRecordIndep(key, value []byte, del bool) []byte {
	b := make([]byte, 6+len(key)+len(value)+4)
	binary.LittleEndian.PutUint16(b[0:2], uint16(len(key)))
	v := uint32(len(value))
	if del {
		v |= 1 << 31
	}
	binary.LittleEndian.PutUint32(b[2:6], v)
	copy(b[6:], key)
	copy(b[6+len(key):], value)
	binary.LittleEndian.PutUint32(b[len(b)-4:], crc32.ChecksumIEEE(b[:len(b)-4]))
	return b
}

type damagedCase struct {
	img  *Image
	desc string
	kind string
	// flipped record must be dropped by both
	flipSeg   string
	flipValid int64 // expected valid length of flipSeg
}

// executeHuge: recovery of a segment larger than 2 GiB whose tail is a header claiming arbitrary lengths.
// The offsets involved exceed 2^31: arithmetic on offsets and lengths must not wrap.
func executeHuge(p *Plan) *RunResult {
	res := newResult()
	res.Evaluations = 0
	for _, op := range p.Tasks[0] {
		r := executeHugeOne(p, op)
		res.Evaluations++
		res.Probes.Add(r.Probes)
		for k, v := range r.Faults {
			res.Faults[k] += v
		}
		res.Hashes = append(res.Hashes, r.Hashes...)
		res.NonTrivial = true
		res.Sample = r.Sample
		if r.V != nil {
			res.V = r.V
			return res
		}
	}
	return res
}

func executeHugeOne(p *Plan, op Op) *RunResult {
	res := newResult()
	claimK := uint16(op.Key)
	claimV := uint32(int64(op.ID)<<16 | int64(op.Size))
	key := []byte("big")
	val := make([]byte, 4<<20)
	for i := range val {
		val[i] = byte(i*7 + i>>11)
	}
	rec := encodeRecordIndep(key, val, false)
	const nrec = 512
	R := int64(len(rec))
	hdr := make([]byte, walHeaderSize)
	copy(hdr, walSignature)
	binary.LittleEndian.PutUint32(hdr[8:12], walVersion)
	tail := make([]byte, 6+3)
	binary.LittleEndian.PutUint16(tail[0:2], claimK)
	binary.LittleEndian.PutUint32(tail[2:6], claimV)
	valid := int64(walHeaderSize) + nrec*R
	total := valid + int64(len(tail))
	at := func(off int64, b []byte) {
		for i := 0; i < len(b); {
			o := off + int64(i)
			switch {
			case o < walHeaderSize:
				i += copy(b[i:], hdr[o:])
			case o < valid:
				i += copy(b[i:], rec[(o-walHeaderSize)%R:])
			default:
				i += copy(b[i:], tail[o-valid:])
			}
		}
	}
	im := NewImage()
	im.Dirs[dbDir] = true
	im.Files[dbDir+"/lock"] = &FileState{}
	e := NewEnv(p.Cfg, p.KeyBytes(), im, false)
	e.NoRetain = true
	seg := dbDir + "/00000-1.psg"
	e.FS.SetVirtual(seg, total, at)
	oldGC := debug.SetGCPercent(50)
	defer debug.SetGCPercent(oldGC)
	var ms0, ms1 runtime.MemStats
	runtime.ReadMemStats(&ms0)
	err := e.Open()
	runtime.ReadMemStats(&ms1)
	desc := fmt.Sprintf("segment of %d bytes (512 records of 4 MiB) + header{key size %d, value size %d, delete bit %v} + 3 bytes", valid, claimK, claimV&^(1<<31), claimV>>31 == 1)
	if err != nil {
		res.V = violf("open-failed-on-damaged-tail", "%s: Open: %v", desc, err)
		return res
	}
	res.Faults["garbage-header-beyond-2GiB"]++
	res.Probes["huge_segment_recovered"]++
	alloc := int64(ms1.TotalAlloc - ms0.TotalAlloc)
	if bound := 2*total + 64<<20; alloc > bound {
		res.V = violf("recovery-allocates-by-claimed-length", "%s: the recovering Open allocated %d bytes (bound %d)", desc, alloc, bound)
		return res
	}
	if e.FS.Stats.MaxReadOver > 64<<10 {
		res.V = violf("recovery-reads-by-claimed-length", "%s: a read request exceeded the bytes remaining in the file by %d", desc, e.FS.Stats.MaxReadOver)
		return res
	}
	if got := e.FS.FileSize(seg); got != valid {
		res.V = violf("damaged-segment-not-truncated", "%s: the segment is %d bytes after recovery, its valid prefix is %d", desc, got, valid)
		return res
	}
	if n := e.DB.Count(); n != 1 {
		res.V = violf("damaged-tail-count-mismatch", "%s: Count() = %d, want 1", desc, n)
		return res
	}
	got, err := e.DB.Get(key)
	if err != nil || !bytes.Equal(got, val) {
		res.V = violf("damaged-tail-get-mismatch", "%s: Get returns %d bytes, %v; want the 4 MiB value of the last record", desc, len(got), err)
		return res
	}
	if err := e.DB.Close(); err != nil {
		res.V = violf("api-error", "%s: Close: %v", desc, err)
		return res
	}
	debug.FreeOSMemory()
	res.Hashes = append(res.Hashes, uint64(claimV)<<16|uint64(claimK))
	res.NonTrivial = true
	res.Sample = map[string]interface{}{"seed": p.Seed, "case": desc, "allocated": alloc, "largest_read_over": e.FS.Stats.MaxReadOver}
	return res
}

func (damageEngine) Execute(p *Plan) *RunResult {
	if p.Engine == "huge" {
		return executeHuge(p)
	}
	res := newResult()
	res.Evaluations = 0
	e, base, v := buildUncleanImage(p)
	res.Probes.Add(e.Probes)
	if v != nil {
		res.V = v
		return res
	}
	rng := rand.New(rand.NewSource(p.Seed ^ 0x3c6ef372))
	segs := segNames(base)
	if len(segs) == 0 {
		return res
	}
	hashes := map[uint64]bool{}
	defer func() {
		for h := range hashes {
			res.Hashes = append(res.Hashes, h)
		}
	}()
	if len(segs) > 1 {
		res.Probes["multi_segment_image"]++
	}
	var cases []damagedCase
	mk := func(kind, desc string, mut func(files map[string]*FileState)) *damagedCase {
		im := base.Clone()
		mut(im.Files)
		cases = append(cases, damagedCase{img: im, desc: desc, kind: kind})
		return &cases[len(cases)-1]
	}
	setBytes := func(files map[string]*FileState, name string, b []byte) {
		files[name] = &FileState{Durable: b}
	}
	pickSeg := func() SegName {
		if rng.Intn(3) == 0 {
			return segs[rng.Intn(len(segs))] // any, incl. non-newest
		}
		return segs[len(segs)-1]
	}
	if p.Property == "C19" {
		// 6-byte headers with arbitrary claims followed by 0..N further bytes
		n := 12
		for i := 0; i < n; i++ {
			sn := pickSeg()
			cur := base.Files[sn.Path].Cur()
			hdr := make([]byte, 6)
			kl := []uint16{0, 1, 255, 65535, uint16(rng.Intn(65536))}[rng.Intn(5)]
			vls := []uint32{0, 1, 4096, 1 << 20, 1 << 24, 1<<29 - 1, 1 << 29, 1 << 30, 1<<31 - 1, uint32(rng.Int63n(1 << 31))}
			vl := vls[rng.Intn(len(vls))]
			if rng.Intn(2) == 0 {
				vl |= 1 << 31
			}
			binary.LittleEndian.PutUint16(hdr[0:2], kl)
			binary.LittleEndian.PutUint32(hdr[2:6], vl)
			extra := make([]byte, []int{0, 0, 1, 3, 4, 100, 600, 5000}[rng.Intn(8)])
			rng.Read(extra)
			tail := append(hdr, extra...)
			desc := fmt.Sprintf("segment %s + header{key size %d, value size %d, delete bit %v} + %d bytes", sn.Path, kl, vl&^(1<<31), vl>>31 == 1, len(extra))
			mk("garbage-header", desc, func(f map[string]*FileState) { setBytes(f, sn.Path, append(append([]byte(nil), cur...), tail...)) })
			// a second damaged (older) segment at the same time
			if len(segs) > 1 && rng.Intn(3) == 0 {
				c := &cases[len(cases)-1]
				o := segs[rng.Intn(len(segs)-1)]
				oc := base.Files[o.Path].Cur()
				setBytes(c.img.Files, o.Path, append(append([]byte(nil), oc...), tail...))
				c.desc += " (also appended to " + o.Path + ")"
			}
		}
	} else {
		for i := 0; i < 10; i++ {
			sn := pickSeg()
			cur := append([]byte(nil), base.Files[sn.Path].Cur()...)
			recs, _, _ := DecodeSegment(cur)
			switch k := rng.Intn(8); {
			case k == 0:
				n := []int{1, 2, 5, 6, 9, 10, 11, 100, 511, 512, 513, 4096}[rng.Intn(12)]
				mk("zeros", fmt.Sprintf("%s + %d zero bytes", sn.Path, n), func(f map[string]*FileState) { setBytes(f, sn.Path, append(cur, make([]byte, n)...)) })
			case k == 1 && len(recs) > 0:
				// truncate inside the last record
				last := recs[len(recs)-1]
				cutAt := last.Off + 1 + int64(rng.Intn(last.Len-1))
				mk("truncate", fmt.Sprintf("%s truncated to %d (inside the last record at %d, %d bytes)", sn.Path, cutAt, last.Off, last.Len), func(f map[string]*FileState) { setBytes(f, sn.Path, cur[:cutAt]) })
			case k == 2 && len(recs) > 0:
				// flip one bit of one record's key, value or checksum
				ri := len(recs) - 1
				if rng.Intn(3) == 0 {
					ri = rng.Intn(len(recs))
				}
				r := recs[ri]
				if r.Len > 10 || true {
					body := int64(r.Len - 6) // key+value+crc
					bit := rng.Int63n(body * 8)
					pos := r.Off + 6 + bit/8
					c := mk("bitflip", fmt.Sprintf("%s: bit %d of byte %d flipped (record %d of %d at %d, %d bytes)", sn.Path, bit%8, pos, ri, len(recs), r.Off, r.Len), func(f map[string]*FileState) {
						cur[pos] ^= 1 << uint(bit%8)
						setBytes(f, sn.Path, cur)
					})
					c.flipSeg, c.flipValid = sn.Path, r.Off
				}
			case k == 3 && len(recs) > 0:
				// flip a bit in the length fields
				r := recs[rng.Intn(len(recs))]
				bit := rng.Intn(48)
				if (bit == 47 || (bit >= 36 && bit < 47)) && rng.Intn(4) != 0 {
					bit = rng.Intn(36) // mostly keep the claimed value size below 1 MiB here (C19 covers the rest)
				}
				pos := r.Off + int64(bit/8)
				mk("lenflip", fmt.Sprintf("%s: length-field bit %d of the record at %d flipped", sn.Path, bit, r.Off), func(f map[string]*FileState) {
					cur[pos] ^= 1 << uint(bit%8)
					setBytes(f, sn.Path, cur)
				})
			case k == 4:
				n := 1 + rng.Intn(600)
				g := boundedGarbage(rng, n, 1<<20)
				what := "garbage"
				if rng.Intn(3) == 0 {
					// raw bytes: the length fields are whatever the garbage says (3 of 4 claim more than any
					// Put could have written); all 0xFF in 1 of 4 of these
					what = "raw-garbage"
					rng.Read(g)
					if rng.Intn(4) == 0 {
						for i := range g {
							g[i] = 0xFF
						}
					}
				}
				mk(what, fmt.Sprintf("%s + %d %s bytes", sn.Path, n, what), func(f map[string]*FileState) { setBytes(f, sn.Path, append(cur, g...)) })
			case k == 5:
				// a well-formed record after a damaged one
				bad := encodeRecordIndep([]byte("ghost"), []byte("never written"), false)
				bad[7+rng.Intn(len(bad)-7)] ^= 0x10
				good := encodeRecordIndep([]byte("ghost2"), []byte("also never written"), rng.Intn(2) == 0)
				mk("valid-after-invalid", fmt.Sprintf("%s + damaged record + well-formed record", sn.Path), func(f map[string]*FileState) {
					setBytes(f, sn.Path, append(append(cur, bad...), good...))
				})
			case k == 6 && len(recs) > 1:
				// truncation in the middle of an earlier record (drops the rest of the segment)
				r := recs[rng.Intn(len(recs)-1)]
				cutAt := r.Off + 1 + int64(rng.Intn(r.Len-1))
				mk("truncate", fmt.Sprintf("%s truncated to %d", sn.Path, cutAt), func(f map[string]*FileState) { setBytes(f, sn.Path, cur[:cutAt]) })
			case k == 7 && len(segs) > 1:
				// two segments damaged at once
				o := segs[rng.Intn(len(segs)-1)]
				oc := append([]byte(nil), base.Files[o.Path].Cur()...)
				g1 := boundedGarbage(rng, 1+rng.Intn(40), 1<<16)
				g2 := boundedGarbage(rng, 1+rng.Intn(40), 1<<16)
				mk("two-segments", fmt.Sprintf("%s and %s + garbage", sn.Path, o.Path), func(f map[string]*FileState) {
					setBytes(f, sn.Path, append(cur, g1...))
					setBytes(f, o.Path, append(oc, g2...))
				})
			}
		}
		// exhaustive bit flips of one small record
		sn := segs[len(segs)-1]
		cur := base.Files[sn.Path].Cur()
		recs, _, _ := DecodeSegment(cur)
		if len(recs) > 0 {
			r := recs[len(recs)-1]
			if r.Len <= 64 {
				res.Probes["exhaustive_bitflip_record"]++
				for bit := int64(0); bit < int64(r.Len-6)*8; bit++ {
					b := append([]byte(nil), cur...)
					pos := r.Off + 6 + bit/8
					b[pos] ^= 1 << uint(bit%8)
					c := mk("bitflip", fmt.Sprintf("%s: bit %d of byte %d flipped (last record, exhaustive)", sn.Path, bit%8, pos), func(f map[string]*FileState) { setBytes(f, sn.Path, b) })
					c.flipSeg, c.flipValid = sn.Path, r.Off
				}
			}
		}
	}
	for _, c := range cases {
		res.Evaluations++
		res.Faults[c.kind]++
		files := ImageFiles(c.img)
		expect, err := WalReplay(files, dbDir, false)
		if err != nil {
			panic(err)
		}
		var totalSeg int64
		var maxSeg int64
		validLens := map[string]int64{}
		whys := map[string]string{}
		for _, sn := range segNames(c.img) {
			_, vl, why := DecodeSegment(files[sn.Path])
			validLens[sn.Path] = vl
			whys[sn.Path] = why
			totalSeg += int64(len(files[sn.Path]))
			if int64(len(files[sn.Path])) > maxSeg {
				maxSeg = int64(len(files[sn.Path]))
			}
		}
		if c.flipSeg != "" && validLens[c.flipSeg] != c.flipValid {
			res.V = violf("harness-decoder-accepts-flipped-record", "%s: the reference decoder kept a record with a flipped bit", c.desc)
			return res
		}
		hashes[fnvAdd(c.img.Digest(), []byte(c.kind))] = true
		env := NewEnv(p.Cfg, p.KeyBytes(), c.img, false)
		env.NoRetain = true
		var ms0, ms1 runtime.MemStats
		runtime.ReadMemStats(&ms0)
		err = env.Open()
		runtime.ReadMemStats(&ms1)
		if err != nil {
			res.V = violf("open-failed-on-damaged-tail", "%s: Open: %v", c.desc, err)
			return res
		}
		if !env.lastOpenRecovered {
			res.V = violf("unclean-not-recovered", "%s: Open of an unclean directory did not run recovery", c.desc)
			return res
		}
		if p.Property == "C19" {
			alloc := int64(ms1.TotalAlloc - ms0.TotalAlloc)
			bound := 8*totalSeg + 4<<20
			if alloc > bound {
				res.V = violf("recovery-allocates-by-claimed-length", "%s: the recovering Open allocated %d bytes, segment files hold %d bytes (bound %d)", c.desc, alloc, totalSeg, bound)
				return res
			}
			if env.FS.Stats.SliceOverAlloc > 64<<10 {
				res.V = violf("recovery-allocates-by-claimed-length", "%s: the recovering Open asked the file system for views reaching %d bytes past the end of a file (fs.OS allocates them)", c.desc, env.FS.Stats.SliceOverAlloc)
				return res
			}
			if env.FS.Stats.MaxReadOver > 64<<10 {
				res.V = violf("recovery-reads-by-claimed-length", "%s: a read request exceeded the bytes remaining in the file by %d", c.desc, env.FS.Stats.MaxReadOver)
				return res
			}
		}
		// contents == replay of the valid prefixes
		env.Model = NewModel()
		for k, v := range expect {
			env.Model.M[k] = v
		}
		universe := env.Keys
		for k := range expect {
			universe = append(universe, []byte(k))
		}
		universe = append(universe, []byte("ghost"), []byte("ghost2"))
		env.Keys = universe
		if v := env.CheckContents(); v != nil {
			v.Class = "damaged-tail-" + v.Class
			v.Detail = c.desc + ": " + v.Detail
			res.V = v
			return res
		}
		// every damaged segment is truncated to its valid length
		names := []string{}
		for n := range validLens {
			names = append(names, n)
		}
		sort.Strings(names)
		for _, n := range names {
			if whys[n] == "" {
				continue
			}
			got := env.FS.FileBytes(n)
			if got == nil {
				continue // may legitimately be gone? no: recovery never removes segments
			}
			if int64(len(got)) != validLens[n] {
				res.V = violf("damaged-segment-not-truncated", "%s: %s is %d bytes after recovery, valid prefix is %d (%s)", c.desc, n, len(got), validLens[n], whys[n])
				return res
			}
			if !bytes.Equal(got, files[n][:validLens[n]]) {
				res.V = violf("damaged-segment-not-truncated", "%s: %s changed within its valid prefix", c.desc, n)
				return res
			}
			res.Probes["segment_truncated_to_valid_prefix"]++
		}
		if v := env.CheckStructure(false); v != nil {
			v.Class = "damaged-tail-" + v.Class
			v.Detail = c.desc + ": " + v.Detail
			res.V = v
			return res
		}
		// the database stays usable and crash-safe: one more write, close, reopen
		if rng.Intn(4) == 0 {
			k := p.KeyBytes()[0]
			if err := env.DB.Put(k, []byte("after-recovery")); err != nil {
				res.V = violf("api-error", "%s: Put after recovery: %v", c.desc, err)
				return res
			}
			env.Model.Put(k, []byte("after-recovery"))
			if err := env.DB.Close(); err != nil {
				res.V = violf("api-error", "%s: Close after recovery: %v", c.desc, err)
				return res
			}
			if v := env.CheckStructure(true); v != nil {
				v.Class = "damaged-tail-" + v.Class
				v.Detail = c.desc + " (after a further Put and Close): " + v.Detail
				res.V = v
				return res
			}
		}
	}
	res.NonTrivial = len(cases) > 0
	if len(cases) > 0 {
		res.Sample = map[string]interface{}{"seed": p.Seed, "history": opsString(p.Tasks[0], 10), "segments": len(segs), "damage": []string{cases[0].desc, cases[len(cases)-1].desc}}
	}
	return res
}
