package harness

import (
	"bytes"
	"fmt"
	"math/rand"
	"testing"
	"time"

	"github.com/anishathalye/porcupine"
)

// ---------------------------------------------------------------------------------------------
// Workload generation for the concurrent engines.

func GenConcCfg(rng *rand.Rand, prop string) Cfg {
	c := GenCfg(rng)
	c.NKeys = 2 + rng.Intn(7)
	if c.Family == int(KFLengths) {
		c.Family = int(KFTiny)
	}
	c.MaxSeg = []uint32{600, 700, 900, 1024, 2048, 4096}[rng.Intn(6)]
	c.CompMinSeg = []uint32{1, 513, 600}[rng.Intn(3)]
	c.CompFrag = []float32{0.01, 0.05, 0.2, 0.5}[rng.Intn(4)]
	c.FSYields = rng.Intn(2) == 0
	c.UnlockYields = rng.Intn(3) == 0
	c.Sticky = []int{0, 0, 3, 10}[rng.Intn(4)]
	c.SchedSeed = rng.Int63()
	c.ShortReads = rng.Intn(2) == 0
	if rng.Intn(2) == 0 {
		c.BgSyncMs = []int{0, 3, 5}[rng.Intn(3)]
		c.BgCompactMs = []int{0, 7, 11}[rng.Intn(3)]
		if c.BgSyncMs+c.BgCompactMs > 0 {
			c.TickProb = []float64{0.02, 0.05, 0.2}[rng.Intn(3)]
		}
	}
	if c.SyncMode == 2 && c.BgSyncMs > 0 {
		c.SyncMode = 0
	}
	return c
}

// genClient generates the operations of one client task.
func genClient(rng *rand.Rand, cfg Cfg, n int, w map[string]int, keysOf []int, id *int, sizes []int) []Op {
	order := []string{"put", "del", "get", "geta", "has", "count", "items", "sync", "compact", "backup", "filesize", "metrics", "close"}
	var ops []Op
	for len(ops) < n {
		k := pick(rng, w, order)
		op := Op{K: k}
		switch k {
		case "put":
			op.Key = keysOf[rng.Intn(len(keysOf))]
			*id++
			op.ID = *id
			op.Size = sizes[rng.Intn(len(sizes))]
		case "del":
			op.Key = keysOf[rng.Intn(len(keysOf))]
		case "get", "has":
			op.Key = rng.Intn(cfg.NKeys)
		case "geta":
			op.Key = rng.Intn(cfg.NKeys)
			op.Size = []int{0, 3, 20}[rng.Intn(3)]
		}
		ops = append(ops, op)
	}
	return ops
}

var concSizes = []int{0, 12, 12, 16, 40, 100, 300, 520}

// ---------------------------------------------------------------------------------------------
// C07: linearizability.

type linEngine struct {
	t      *testing.T
	poison bool // C14: aliasing + poisoning disk personality forced, read-heavy clients
}

func (l linEngine) Generate(rng *rand.Rand, prop string, thorough bool) *Plan {
	cfg := GenConcCfg(rng, prop)
	if l.poison {
		cfg.Alias, cfg.Poison = true, true
		cfg.CompMinSeg, cfg.CompFrag = 1, 0.01
	}
	p := &Plan{Property: prop, Engine: "lin", Cfg: cfg}
	keys := GenKeys(rng, KeyFamily(cfg.Family), cfg.NKeys, cfg.HashSeed)
	p.Cfg.NKeys = len(keys)
	cfg.NKeys = len(keys)
	p.SetKeys(keys)
	nclients := 2 + rng.Intn(4)
	total := 20 + rng.Intn(100)
	if thorough {
		total = 20 + rng.Intn(160)
	}
	if !l.poison && rng.Intn(5) == 0 {
		// a growing index: 30-70 keys, 15-21 of them preloaded, the writers put the rest for the first time
		// (index splits while readers, scans and Count run); histories stay short per key
		// preloaded just below a split threshold (22, 44, 66 keys for 1, 2, 3 buckets), so that the split
		// happens early in the concurrent phase, while the first scans are under way
		nPre := []int{15, 36, 58}[rng.Intn(3)] + rng.Intn(7)
		cfg.NKeys = nPre + 10 + rng.Intn(20)
		cfg.Family = int(KFMixed)
		if cfg.NKeys <= 70 && rng.Intn(2) == 0 {
			cfg.Family = int(KFTiny)
		}
		keys = GenKeys(rng, KeyFamily(cfg.Family), cfg.NKeys, cfg.HashSeed)
		p.Cfg.NKeys, p.Cfg.Family = len(keys), cfg.Family
		cfg.NKeys = len(keys)
		p.SetKeys(keys)
		id := 0
		var pre []Op
		for k := 0; k < nPre && k < cfg.NKeys; k++ {
			id++
			pre = append(pre, Op{K: "put", Key: k, ID: id, Size: 12})
		}
		p.Epochs = [][]Op{pre}
		nw := 1 + rng.Intn(2)
		for w := 0; w < nw; w++ {
			var ops []Op
			for k := nPre + w; k < cfg.NKeys; k += nw {
				id++
				ops = append(ops, Op{K: "put", Key: k, ID: id, Size: concSizes[rng.Intn(3)]})
				if rng.Intn(6) == 0 {
					ops = append(ops, Op{K: "del", Key: rng.Intn(nPre)})
				}
			}
			p.Tasks = append(p.Tasks, ops)
		}
		all := make([]int, cfg.NKeys)
		for i := range all {
			all[i] = i
		}
		for r := 1 + rng.Intn(3); r > 0; r-- {
			w := map[string]int{"get": 30, "has": 10, "geta": 5, "count": 6, "items": 6}
			p.Tasks = append(p.Tasks, genClient(rng, cfg, 8+rng.Intn(25), w, all, &id, concSizes))
		}
		return p
	}
	all := make([]int, cfg.NKeys)
	for i := range all {
		all[i] = i
	}
	id := 0
	for c := 0; c < nclients; c++ {
		w := map[string]int{"put": 30, "del": 12, "get": 25, "geta": 6, "has": 8}
		switch rng.Intn(5) {
		case 0:
			w = map[string]int{"compact": 10, "sync": 3, "count": 3, "items": 1, "put": 5}
		case 1:
			w["compact"], w["sync"], w["count"], w["items"], w["filesize"] = 3, 2, 2, 1, 1
		case 2:
			w["backup"] = 1
			w["compact"] = 2
		}
		p.Tasks = append(p.Tasks, genClient(rng, cfg, total/nclients+1, w, all, &id, concSizes))
	}
	return p
}

type linIn struct {
	op   string
	key  int
	val  string
	pre  int
}
type linOut struct {
	val   string
	isNil bool
	b     bool
}

const absentState = "\x00<absent>"

func linModel() porcupine.Model {
	return porcupine.Model{
		Partition: func(history []porcupine.Operation) [][]porcupine.Operation {
			m := map[int][]porcupine.Operation{}
			var ks []int
			for _, o := range history {
				k := o.Input.(linIn).key
				if _, ok := m[k]; !ok {
					ks = append(ks, k)
				}
				m[k] = append(m[k], o)
			}
			var out [][]porcupine.Operation
			for _, k := range ks {
				out = append(out, m[k])
			}
			return out
		},
		Init: func() interface{} { return absentState },
		Step: func(state, input, output interface{}) (bool, interface{}) {
			st := state.(string)
			in := input.(linIn)
			out := output.(linOut)
			switch in.op {
			case "put":
				return true, in.val
			case "del":
				return true, absentState
			case "get":
				if st == absentState {
					return out.isNil, st
				}
				return !out.isNil && out.val == st, st
			case "geta":
				if st == absentState {
					return out.isNil, st
				}
				pre := make([]byte, in.pre)
				for i := range pre {
					pre[i] = byte('a' + i%26)
				}
				return out.val == string(pre)+st && !(out.isNil && len(pre)+len(st) > 0), st
			case "has":
				return out.b == (st != absentState), st
			}
			return false, st
		},
		DescribeOperation: func(input, output interface{}) string {
			in := input.(linIn)
			out := output.(linOut)
			return fmt.Sprintf("%s(k%d %q) -> %q nil=%v %v", in.op, in.key, clipS(in.val), clipS(out.val), out.isNil, out.b)
		},
	}
}

func clipS(s string) string {
	if len(s) > 10 {
		return s[:10] + ".."
	}
	return s
}

// checkLinearizable checks the key-value part of a history with porcupine.
func checkLinearizable(hist []*HistEv) (res porcupine.CheckResult, nops int, bad string) {
	var ops []porcupine.Operation
	for _, ev := range hist {
		if ev.Err != "" && ev.Err != "busy" {
			continue
		}
		switch ev.Op.K {
		case "put":
			ops = append(ops, porcupine.Operation{ClientId: ev.Task, Input: linIn{op: "put", key: ev.Op.Key, val: string(ev.Val)}, Call: ev.Inv, Output: linOut{}, Return: ev.Ret})
		case "del":
			ops = append(ops, porcupine.Operation{ClientId: ev.Task, Input: linIn{op: "del", key: ev.Op.Key}, Call: ev.Inv, Output: linOut{}, Return: ev.Ret})
		case "get":
			ops = append(ops, porcupine.Operation{ClientId: ev.Task, Input: linIn{op: "get", key: ev.Op.Key}, Call: ev.Inv, Output: linOut{val: string(ev.Val), isNil: ev.IsNil}, Return: ev.Ret})
		case "geta":
			ops = append(ops, porcupine.Operation{ClientId: ev.Task, Input: linIn{op: "geta", key: ev.Op.Key, pre: ev.Op.Size}, Call: ev.Inv, Output: linOut{val: string(ev.Val), isNil: ev.IsNil}, Return: ev.Ret})
		case "has":
			ops = append(ops, porcupine.Operation{ClientId: ev.Task, Input: linIn{op: "has", key: ev.Op.Key}, Call: ev.Inv, Output: linOut{b: ev.Bool}, Return: ev.Ret})
		}
	}
	m := linModel()
	r := porcupine.CheckOperationsTimeout(m, ops, 20*time.Second)
	if r == porcupine.Illegal {
		// find the offending key for the report
		for _, part := range m.Partition(ops) {
			if porcupine.CheckOperationsTimeout(m, part, 20*time.Second) == porcupine.Illegal {
				var b bytes.Buffer
				fmt.Fprintf(&b, "history of key k%d is not linearizable:", part[0].Input.(linIn).key)
				for i, o := range part {
					if i > 40 {
						b.WriteString(" ...")
						break
					}
					fmt.Fprintf(&b, " [c%d %d-%d %s]", o.ClientId, o.Call, o.Return, m.DescribeOperation(o.Input, o.Output))
				}
				bad = b.String()
				break
			}
		}
	}
	return r, len(ops), bad
}

// checkCountsAndScans: Count and full scans against bounds derived from the history: a key whose
// every write is a put and that has at least one put returned before the call must be counted /
// scanned; a value returned by a scan must have been written (invoked) before the Next returned.
func checkScansTruthful(hist []*HistEv, keys [][]byte) *Violation {
	wbk := writesByKey(hist, keys)
	keyIdx := map[string]int{}
	for i, k := range keys {
		keyIdx[string(k)] = i
	}
	for _, ev := range hist {
		if ev.Op.K != "items" || ev.Err != "" {
			continue
		}
		seen := map[int]int{}
		for pi, kv := range ev.Pairs {
			ki, ok := keyIdx[string(kv[0])]
			if !ok {
				return violf("scan-untruthful", "scan by task %d returned key %s that nobody wrote", ev.Task, clip(kv[0]))
			}
			seen[ki]++
			found := false
			for _, w := range wbk[ki] {
				if w.Op.K == "put" && w.Inv < ev.ScanRet[pi] && bytes.Equal(w.Val, kv[1]) {
					found = true
					break
				}
			}
			if !found {
				return violf("scan-untruthful", "scan by task %d returned k%d=%s, a value never put for that key before the call returned", ev.Task, ki, showVal(kv[1]))
			}
		}
		// completeness: keys with an unchanged value for the whole duration of the scan
		start, end := ev.ScanInv[0], ev.ScanRet[len(ev.ScanRet)-1]
		for ki := range keys {
			ws := wbk[ki]
			// last write returned before the scan started
			var last *HistEv
			stable := true
			for _, w := range ws {
				if w.Err != "" {
					stable = false // a failed write leaves the key in an unknown state
				}
				if w.Ret != 0 && w.Ret < start {
					if last == nil || w.Inv > last.Inv {
						last = w
					}
				}
				if !(w.Ret != 0 && w.Ret < start) && w.Inv < end {
					stable = false // overlaps the scan
				}
			}
			if last != nil {
				// all earlier writes must have returned before last was invoked for `last` to be the definite value
				for _, w := range ws {
					if w != last && w.Ret < start && w.Ret > last.Inv {
						stable = false
					}
				}
			}
			if stable && last != nil && last.Op.K == "put" {
				if seen[ki] == 0 {
					return violf("scan-incomplete", "scan by task %d (events %d-%d) missed k%d whose value was unchanged for the whole scan", ev.Task, start, end, ki)
				}
			}
			if stable && (last == nil || last.Op.K == "del") && seen[ki] > 0 {
				return violf("scan-untruthful", "scan by task %d returned k%d which was absent for the whole scan", ev.Task, ki)
			}
		}
	}
	return nil
}

func (l linEngine) Execute(p *Plan) *RunResult {
	res := newResult()
	cr := concExec(l.t, p, concOpts{finalReads: true, backupDir: "bk"})
	res.Probes.Add(cr.env.Probes)
	if cr.sim != nil {
		res.Steps = cr.sim.Steps()
		res.SimNanos = int64(cr.sim.SimTime())
		res.Faults["tick"] += cr.sim.Ticks
		res.Faults["tick_dropped"] += cr.sim.TicksDropped
		res.Probes["context_switches"] += cr.sim.Switches
		res.Hashes = append(res.Hashes, cr.sim.SchedHash())
		p.Tape = append([]int(nil), cr.sim.Choices...)
	}
	if cr.env.FS.Stats.ShortReads > 0 {
		res.Faults["short_read"] += cr.env.FS.Stats.ShortReads
	}
	if cr.v != nil {
		res.V = cr.v
		return res
	}
	r, nops, bad := checkLinearizable(cr.hist)
	res.Probes["lin_ops_checked"] += nops
	switch r {
	case porcupine.Illegal:
		res.V = violf("not-linearizable", "%s", bad)
		return res
	case porcupine.Unknown:
		res.Inconclusive++
	}
	if v := checkScansTruthful(cr.hist, p.KeyBytes()); v != nil {
		res.V = v
		return res
	}
	if v := checkCountBounds(cr.hist, p.KeyBytes()); v != nil {
		res.V = v
		return res
	}
	res.NonTrivial = cr.sim.Switches > 2
	res.Sample = map[string]interface{}{"seed": p.Seed, "tasks": len(p.Tasks), "ops": p.NumOps(), "steps": res.Steps, "context_switches": cr.sim.Switches, "first_ops_task0": opsString(p.Tasks[0], 8), "cfg": p.Cfg}
	return res
}

// checkCountBounds: Count() must lie between the number of keys present in every linearization
// during the call and the number of keys present in some linearization (both bounds conservative).
func checkCountBounds(hist []*HistEv, keys [][]byte) *Violation {
	wbk := writesByKey(hist, keys)
	for _, ev := range hist {
		if ev.Op.K != "count" || ev.Err != "" {
			continue
		}
		lo, hi := 0, 0
		for ki := range keys {
			ws := wbk[ki]
			definitely, possibly := false, false
			for _, w := range ws {
				if w.Op.K != "put" {
					continue
				}
				// possibly present: w started before the count ended and no delete lies definitely
				// after w and definitely before the count
				if w.Inv < ev.Ret {
					killed := false
					for _, d := range ws {
						if d.Op.K == "del" && d.Err == "" && w.Ret != 0 && d.Inv > w.Ret && d.Ret != 0 && d.Ret < ev.Inv {
							killed = true
						}
					}
					if !killed {
						possibly = true
					}
				}
				// definitely present: w returned (without error) before the count started and every
				// delete returned before w was invoked
				if w.Err == "" && w.Ret != 0 && w.Ret < ev.Inv {
					ok := true
					for _, d := range ws {
						if d.Op.K == "del" && !(d.Ret != 0 && d.Ret < w.Inv) {
							ok = false
						}
					}
					if ok {
						definitely = true
					}
				}
			}
			if definitely {
				lo++
			}
			if possibly {
				hi++
			}
		}
		if ev.N < lo || ev.N > hi {
			return violf("count-out-of-bounds", "Count() by task %d (events %d-%d) = %d, but between %d and %d keys existed during the call", ev.Task, ev.Inv, ev.Ret, ev.N, lo, hi)
		}
	}
	return nil
}
