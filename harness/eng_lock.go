package harness

import (
	"bytes"
	"fmt"
	"io"
	"log"
	"math/rand"
	"os"
	"path/filepath"
	"strings"
	"syscall"
	"testing"
	"testing/synctest"

	"github.com/akrylysov/pogreb"
	"github.com/akrylysov/pogreb/fs"
	"verif.local/sim/sched"
)

// ---------------------------------------------------------------------------------------------
// C13: one open handle per directory; unclean shutdown is always detected.
//
// 2-4 opener tasks run Open / (a few operations) / Close-or-die rounds against ONE directory on the
// REAL fs.OS (real stat/open/flock/unlink/close in a run-time temporary directory). The seeded
// scheduler decides who executes the next statement of fs.createLockFile and (*osLockFile).Unlock
// (the instrumenter inserts a yield before each of their statements) and the next API call.
// "die" = the process of that session dies: its descriptors are closed without Close being run (the
// lock file stays, the flock is released).

type lockEngine struct{ t *testing.T }

func (lockEngine) Generate(rng *rand.Rand, prop string, thorough bool) *Plan {
	cfg := Cfg{HashSeed: rng.Uint32(), MaxSeg: 4096, CompMinSeg: 1024, CompFrag: 0.5, NKeys: 4}
	cfg.SchedSeed = rng.Int63()
	cfg.Sticky = []int{0, 0, 2, 4}[rng.Intn(4)]
	// 1 run in 4 starts on a directory as left by an opener that died right after publishing the lock file and
	// before removing the temporary name it was published from: two names, one inode, nobody holds it
	cfg.RecoverFirst = rng.Intn(4) == 0
	p := &Plan{Property: prop, Engine: "lock", Cfg: cfg}
	p.SetKeys([][]byte{[]byte("a"), []byte("b"), []byte("c"), []byte("d")})
	n := 2 + rng.Intn(3)
	id := 0
	for t := 0; t < n; t++ {
		var ops []Op
		rounds := 1 + rng.Intn(3)
		if thorough {
			rounds = 1 + rng.Intn(5)
		}
		for r := 0; r < rounds; r++ {
			if rng.Intn(6) == 0 {
				// an Open during which the k-th file open fails (EMFILE); the process then dies
				ops = append(ops, Op{K: "openfail", Key: 1 + rng.Intn(8)})
			}
			ops = append(ops, Op{K: "open"})
			for w := rng.Intn(3); w > 0; w-- {
				id++
				if rng.Intn(4) == 0 {
					ops = append(ops, Op{K: "del", Key: rng.Intn(4)})
				} else {
					ops = append(ops, Op{K: "put", Key: rng.Intn(4), ID: id, Size: 12})
				}
			}
			if rng.Intn(3) == 0 {
				ops = append(ops, Op{K: "die"})
			} else {
				ops = append(ops, Op{K: "close"})
				if rng.Intn(5) == 0 {
					// the same handle is closed a second time later (defer db.Close() after an explicit Close):
					// whatever it returns, it must not touch a directory that somebody else may hold by then
					ops = append(ops, Op{K: "reclose"})
				}
			}
		}
		p.Tasks = append(p.Tasks, ops)
	}
	return p
}

// sessionFS is the FileSystem one Open call gets: it attributes file-system calls to the session.
type sessionFS struct {
	failAt    int // >0: the failAt-th OpenFile call fails with EMFILE
	nOpen     int
	injected  bool
	inner     fs.FileSystem
	lock      fs.LockFile
	files     []fs.File
	mutations []string // mutating calls other than on the lock file
	recovered bool     // index / meta files were moved aside (*.bac): recovery
}

func (s *sessionFS) OpenFile(name string, flag int, perm os.FileMode) (fs.File, error) {
	s.nOpen++
	if s.failAt > 0 && s.nOpen == s.failAt {
		s.injected = true
		return nil, &os.PathError{Op: "open", Path: name, Err: syscall.EMFILE}
	}
	if flag&(os.O_CREATE|os.O_TRUNC) != 0 {
		if _, err := s.inner.Stat(name); err != nil || flag&os.O_TRUNC != 0 {
			s.mutations = append(s.mutations, "create/truncate "+filepath.Base(name))
		}
	}
	f, err := s.inner.OpenFile(name, flag, perm)
	if err != nil {
		return nil, err
	}
	s.files = append(s.files, f)
	return &sessionFile{File: f, s: s, name: name}, nil
}
func (s *sessionFS) CreateLockFile(name string, perm os.FileMode) (fs.LockFile, bool, error) {
	l, existed, err := s.inner.CreateLockFile(name, perm)
	if err == nil {
		s.lock = l
	}
	return l, existed, err
}
func (s *sessionFS) Stat(name string) (os.FileInfo, error) { return s.inner.Stat(name) }
func (s *sessionFS) Remove(name string) error {
	s.mutations = append(s.mutations, "remove "+filepath.Base(name))
	return s.inner.Remove(name)
}
func (s *sessionFS) Rename(oldpath, newpath string) error {
	s.mutations = append(s.mutations, "rename "+filepath.Base(oldpath))
	if strings.HasSuffix(newpath, ".bac") {
		s.recovered = true
	}
	return s.inner.Rename(oldpath, newpath)
}
func (s *sessionFS) ReadDir(name string) ([]os.DirEntry, error) { return s.inner.ReadDir(name) }
func (s *sessionFS) MkdirAll(path string, perm os.FileMode) error {
	return s.inner.MkdirAll(path, perm)
}

type sessionFile struct {
	fs.File
	s    *sessionFS
	name string
}

func (f *sessionFile) Write(p []byte) (int, error) {
	f.s.mutations = append(f.s.mutations, "write "+filepath.Base(f.name))
	return f.File.Write(p)
}
func (f *sessionFile) WriteAt(p []byte, off int64) (int, error) {
	f.s.mutations = append(f.s.mutations, "write "+filepath.Base(f.name))
	return f.File.WriteAt(p, off)
}
func (f *sessionFile) Truncate(size int64) error {
	f.s.mutations = append(f.s.mutations, "truncate "+filepath.Base(f.name))
	return f.File.Truncate(size)
}

// die kills the session: every descriptor is closed, nothing else happens (no Close, no unlink).
func (s *sessionFS) die() {
	for _, f := range s.files {
		_ = f.Close()
	}
	if c, ok := s.lock.(io.Closer); ok {
		_ = c.Close()
	}
}

type lockSession struct {
	task    int
	seq     int
	endKind string // "" while open, then "clean" or "died"
}

func (l lockEngine) Execute(p *Plan) *RunResult {
	res := newResult()
	root, err := os.MkdirTemp(realTmpBase(), "verif-lock-")
	if err != nil {
		panic(err)
	}
	defer os.RemoveAll(root)
	dir := filepath.Join(root, "db")
	keys := p.KeyBytes()
	cfgSeed := p.Cfg.HashSeed
	envSeed := &Env{Cfg: Cfg{HashSeed: cfgSeed}, Probes: Probes{}}
	envSeed.InstallSeedSource()
	pogreb.SetLogger(log.New(io.Discard, "", 0))
	var v *Violation
	fail := func(x *Violation) {
		if v == nil {
			v = x
		}
	}
	gm := map[string][]byte{}       // contents acknowledged so far
	var sessions []*lockSession     // successful Opens, in order
	var sim *sched.Sim
	opts := func(sf *sessionFS) *pogreb.Options {
		o := &pogreb.Options{FileSystem: sf}
		pogreb.VerifSetLimits(o, p.Cfg.MaxSeg, p.Cfg.CompMinSeg, p.Cfg.CompFrag)
		return o
	}
	openHolders := func() []*lockSession {
		var hs []*lockSession
		for _, s := range sessions {
			if s.endKind == "" {
				hs = append(hs, s)
			}
		}
		return hs
	}
	// tryOpen: one Open call with all of C13's judgements
	afterFailedOpen := false // an Open that had taken the lock failed and its process died: recovery next time is allowed
	if p.Cfg.RecoverFirst {
		// what a crash between link(tmp, "lock") and unlink(tmp) inside an earlier Open leaves behind
		if err := os.MkdirAll(dir, 0755); err != nil {
			panic(err)
		}
		tmp := filepath.Join(dir, "lock.99999.1")
		f, err := os.OpenFile(tmp, os.O_CREATE|os.O_RDWR, 0644)
		if err != nil {
			panic(err)
		}
		f.Close()
		if err := os.Link(tmp, filepath.Join(dir, "lock")); err != nil {
			panic(err)
		}
		afterFailedOpen = true
		res.Probes["start_with_leftover_lock_names"]++
	}
	tryOpen := func(task int, failAt int) (*pogreb.DB, *sessionFS, *lockSession) {
		sf := &sessionFS{inner: fs.OS, failAt: failAt}
		db, err := pogreb.Open(dir, opts(sf))
		sf.failAt = 0 // the fault is for this Open only
		if err != nil && sf.injected {
			// the injected fault made this Open fail; it is not a competing Open and not a session
			res.Faults["open_failed_by_injected_error"]++
			if sf.lock != nil {
				afterFailedOpen = true
			}
			sf.die()
			return nil, nil, nil
		}
		if err != nil {
			res.Probes["open_failed_locked"]++
			if !strings.Contains(err.Error(), "locked") {
				fail(violf("competing-open-wrong-error", "task %d: a competing Open failed with %q, not with the 'locked' error", task, err.Error()))
			}
			if len(sf.mutations) > 0 {
				fail(violf("failed-open-changed-directory", "task %d: an Open that failed (%v) made mutating file-system calls: %v", task, err, sf.mutations))
			}
			sf.die() // whatever descriptors the failed Open left are released
			return nil, nil, nil
		}
		res.Probes["open_succeeded"]++
		var prev *lockSession
		if len(sessions) > 0 {
			prev = sessions[len(sessions)-1]
		}
		s := &lockSession{task: task, seq: len(sessions)}
		sessions = append(sessions, s)
		if hs := openHolders(); len(hs) > 1 {
			fail(violf("two-open-handles", "tasks %d and %d both hold the database open (neither has started to close it)", hs[0].task, hs[1].task))
			return db, sf, s
		}
		switch {
		case prev != nil && prev.endKind == "died" && !sf.recovered:
			fail(violf("unclean-shutdown-not-detected", "task %d opened the directory without recovery although the previous session (task %d) died without Close", task, prev.task))
		case prev != nil && prev.endKind == "clean" && sf.recovered && !afterFailedOpen:
			fail(violf("clean-shutdown-recovered", "task %d ran recovery although the previous session (task %d) completed Close", task, prev.task))
		case prev == nil && sf.recovered && !afterFailedOpen:
			fail(violf("clean-shutdown-recovered", "task %d ran recovery on a fresh directory", task))
		}
		afterFailedOpen = false
		if sf.recovered {
			res.Probes["recovery_after_death"]++
		}
		// contents: exactly what earlier sessions acknowledged
		for ki, kb := range keys {
			got, err := db.Get(kb)
			if err != nil {
				fail(violf("api-error", "task %d Get(k%d) after Open: %v", task, ki, err))
				continue
			}
			want, ok := gm[string(kb)]
			if (got == nil) != !ok || !bytes.Equal(got, want) {
				fail(violf("contents-after-open", "task %d opened the directory (recovered=%v) and reads k%d=%s; acknowledged so far: %s", task, sf.recovered, ki, showVal(got), showVal(want)))
			}
		}
		return db, sf, s
	}
	body := func() {
		sim = sched.New(sched.Config{Seed: p.Cfg.SchedSeed, Tape: p.Tape, Sticky: p.Cfg.Sticky, MaxSteps: 200000, LogEvents: os.Getenv("VERIF_DEBUG") != ""}, synctest.Wait)
		sim.Go("main", func() {
			var clients []*sched.Task
			for ti := range p.Tasks {
				ti := ti
				ops := p.Tasks[ti]
				clients = append(clients, sim.Go(fmt.Sprintf("opener%d", ti), func() {
					var db, stale *pogreb.DB
					var sf *sessionFS
					var ses *lockSession
					for _, op := range ops {
						sim.Yield("api " + op.K)
						if v != nil {
							break
						}
						switch op.K {
						case "open":
							if db == nil {
								db, sf, ses = tryOpen(ti, 0)
							}
						case "openfail":
							if db == nil {
								if d, f, se := tryOpen(ti, op.Key); d != nil {
									// the fault did not fire (fewer file opens than k, or the Open lost the competition earlier)
									db, sf, ses = d, f, se
								}
							}
						case "put":
							if db != nil {
								val := MakeValue(ti, op.ID, op.Size)
								if err := db.Put(keys[op.Key], val); err != nil {
									fail(violf("api-error", "task %d Put: %v", ti, err))
								} else {
									gm[string(keys[op.Key])] = val
								}
							}
						case "del":
							if db != nil {
								if err := db.Delete(keys[op.Key]); err != nil {
									fail(violf("api-error", "task %d Delete: %v", ti, err))
								} else {
									delete(gm, string(keys[op.Key]))
								}
							}
						case "close":
							if db != nil {
								ses.endKind = "clean"
								if err := db.Close(); err != nil {
									fail(violf("api-error", "task %d Close: %v", ti, err))
								}
								res.Probes["closed_cleanly"]++
								stale = db
								db = nil
							}
						case "reclose":
							if db == nil && stale != nil {
								_ = stale.Close() // error or nil: both fine
								res.Probes["stale_handle_closed_again"]++
								stale = nil
							}
						case "die":
							if db != nil {
								ses.endKind = "died"
								sf.die()
								res.Probes["session_died"]++
								db = nil
							}
						}
					}
					if db != nil { // a violation stopped the task: release what it holds
						ses.endKind = "died"
						sf.die()
					}
				}))
			}
			sim.Join(clients...)
			if v == nil {
				// the directory at rest: one more Open must see the acknowledged contents
				if db, sf, ses := tryOpen(-1, 0); db != nil {
					ses.endKind = "clean"
					if err := db.Close(); err != nil {
						fail(violf("api-error", "final Close: %v", err))
					}
					_ = sf
				} else if v == nil {
					fail(violf("final-open-failed", "nobody holds the directory any more and Open fails"))
				}
			}
		})
		sim.Run()
	}
	leak := runBubble(l.t, body)
	if os.Getenv("VERIF_DEBUG") != "" && sim != nil {
		for _, e := range sim.EventLog() {
			fmt.Println("DEBUG ev", e)
		}
		for _, s := range sessions {
			fmt.Printf("DEBUG session %d task %d end=%s\n", s.seq, s.task, s.endKind)
		}
	}
	if sim != nil {
		res.Steps = sim.Steps()
		res.Probes["context_switches"] += sim.Switches
		res.Hashes = append(res.Hashes, sim.SchedHash())
		p.Tape = append([]int(nil), sim.Choices...)
		for _, tk := range sim.Tasks() {
			if tk.Panic != nil {
				fail(violf("panic", "task %s panicked: %v\n%s", tk.Name, tk.Panic, trimStack(tk.Stack)))
			}
		}
		if sim.Deadlock != "" {
			fail(violf("deadlock", "%s", sim.Deadlock))
		} else if leak != "" && v == nil {
			fail(violf("goroutine-leak", "%s", leak))
		}
	}
	res.V = v
	res.NonTrivial = res.Probes["open_failed_locked"] > 0
	if res.Probes["open_failed_locked"] > 0 && res.Probes["session_died"] > 0 {
		res.Probes["run_with_competition_and_death"]++
	}
	res.Sample = map[string]interface{}{"seed": p.Seed, "tasks": len(p.Tasks), "ops": p.NumOps(), "steps": res.Steps, "opens_succeeded": res.Probes["open_succeeded"], "opens_refused": res.Probes["open_failed_locked"], "deaths": res.Probes["session_died"]}
	return res
}
