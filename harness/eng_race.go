package harness

import (
	"bytes"
	"fmt"
	"io"
	"log"
	"math/rand"
	"os"
	"path/filepath"
	"regexp"
	"runtime"
	"runtime/debug"
	"strings"
	"sync"
	"sync/atomic"
	"time"

	"github.com/akrylysov/pogreb"
	"github.com/akrylysov/pogreb/fs"
)

// ---------------------------------------------------------------------------------------------
// C10, data-race / memory-fault clause: REAL mode.
//
// The UNINSTRUMENTED repository code, real goroutines, real sync, the three shipped file systems,
// built with -race. Workloads are the seeded plans of the C10 simulation engine; the interleaving is
// whatever the Go runtime does (Gosched calls at seeded places only diversify it). This is the one
// place where executions are observed rather than controlled: the race detector is
// happens-before based, and under the simulator's baton scheduler every pair of accesses is ordered.
// A race report is its own witness (both stacks); the replay file re-runs the seeded workload.

type raceEngine struct{}

var raceLogPos int64

func raceLogPath() string {
	pfx := os.Getenv("VERIF_RACELOG")
	if pfx == "" {
		return ""
	}
	return fmt.Sprintf("%s.%d", pfx, os.Getpid())
}

// newRaceReports returns the race detector output written since the last call.
func newRaceReports() string {
	p := raceLogPath()
	if p == "" {
		return ""
	}
	f, err := os.Open(p)
	if err != nil {
		return ""
	}
	defer f.Close()
	if _, err := f.Seek(raceLogPos, io.SeekStart); err != nil {
		return ""
	}
	b, _ := io.ReadAll(f)
	raceLogPos += int64(len(b))
	return string(b)
}

var reRaceFunc = regexp.MustCompile(`(?m)^  ([A-Za-z0-9_./()*\-]+)\(\)$`)

// raceSignature names a report by the first pogreb function of each of its two stacks.
func raceSignature(report string) string {
	var sig []string
	for _, block := range strings.Split(report, "\n\n") {
		if !(strings.Contains(block, "Read at") || strings.Contains(block, "Write at") || strings.Contains(block, "Previous read") || strings.Contains(block, "Previous write")) {
			continue
		}
		for _, m := range reRaceFunc.FindAllStringSubmatch(block, -1) {
			if strings.Contains(m[1], "akrylysov/pogreb") {
				fn := m[1]
				fn = fn[strings.LastIndex(fn, "/")+1:]
				sig = append(sig, fn)
				break
			}
		}
		if len(sig) == 2 {
			break
		}
	}
	if len(sig) == 0 {
		return "unattributed"
	}
	return strings.Join(sig, "<>")
}

func (raceEngine) Generate(rng *rand.Rand, prop string, thorough bool) *Plan {
	p := chaosEngine{}.Generate(rng, prop, thorough)
	p.Engine = "race"
	if rng.Intn(4) == 0 {
		// a cold start: the data was written by an earlier session (closed cleanly); this session opens the
		// directory and 4-8 goroutines start reading at the same instant, so that the FIRST access of this
		// session to the index files and to every old segment is made by several shared-lock readers at once
		cfg := p.Cfg
		cfg.NKeys = 20 + rng.Intn(60)
		cfg.Family = []int{int(KFTiny), int(KFMixed)}[rng.Intn(2)]
		if cfg.Family == int(KFTiny) && cfg.NKeys > 70 {
			cfg.NKeys = 70
		}
		cfg.MaxSeg = []uint32{1024, 2048, 4096}[rng.Intn(3)]
		cfg.RecoverFirst = true
		keys := GenKeys(rng, KeyFamily(cfg.Family), cfg.NKeys, cfg.HashSeed)
		cfg.NKeys = len(keys)
		p.Cfg = cfg
		p.SetKeys(keys)
		id := 0
		var pre []Op
		for _, k := range rng.Perm(cfg.NKeys) {
			id++
			pre = append(pre, Op{K: "put", Key: k, ID: id, Size: []int{16, 60, 200, 4000}[rng.Intn(4)]})
		}
		p.Epochs = [][]Op{pre}
		all := make([]int, cfg.NKeys)
		for i := range all {
			all[i] = i
		}
		p.Tasks = nil
		for r := 4 + rng.Intn(5); r > 0; r-- {
			w := map[string]int{"get": 50, "has": 15, "geta": 15, "items": 2, "count": 2}
			p.Tasks = append(p.Tasks, genClient(rng, cfg, 40+rng.Intn(60), w, all, &id, concSizes))
		}
		if rng.Intn(2) == 0 {
			p.Tasks[0] = append(p.Tasks[0], Op{K: "close"})
		}
		// the memory-mapped default twice as often: it is the one with per-handle state set up at open time
		p.Cfg.RealFS = []string{"mem", "os", "osmmap", "osmmap"}[rng.Intn(4)]
		p.Cfg.Alias, p.Cfg.Poison, p.Cfg.ShortReads, p.Cfg.PermuteDir, p.Cfg.FSYields = false, false, false, false, false
		p.Cfg.BgSyncMs, p.Cfg.BgCompactMs = 0, 0
		return p
	}
	if rng.Intn(2) == 0 {
		// a growing database: 60-200 keys put for the first time while other goroutines read, so that the
		// index splits (level, split pointer, bucket count change) and the log rolls over under the readers
		cfg := p.Cfg
		cfg.NKeys = 60 + rng.Intn(140)
		cfg.Family = []int{int(KFTiny), int(KFMixed), int(KFLowBits)}[rng.Intn(3)]
		if cfg.Family == int(KFTiny) && cfg.NKeys > 70 {
			cfg.NKeys = 70
		}
		keys := GenKeys(rng, KeyFamily(cfg.Family), cfg.NKeys, cfg.HashSeed)
		cfg.NKeys = len(keys)
		p.Cfg = cfg
		p.SetKeys(keys)
		p.Epochs = nil
		nw := 1 + rng.Intn(2)
		nr := 2 + rng.Intn(3)
		id := 0
		p.Tasks = nil
		for w := 0; w < nw; w++ {
			var ops []Op
			for _, k := range rng.Perm(cfg.NKeys) {
				if k%nw != w {
					continue
				}
				id++
				ops = append(ops, Op{K: "put", Key: k, ID: id, Size: concSizes[rng.Intn(len(concSizes))]})
				if rng.Intn(8) == 0 {
					ops = append(ops, Op{K: "del", Key: k})
				}
				if rng.Intn(30) == 0 {
					ops = append(ops, Op{K: []string{"compact", "sync", "count"}[rng.Intn(3)]})
				}
			}
			p.Tasks = append(p.Tasks, ops)
		}
		all := make([]int, cfg.NKeys)
		for i := range all {
			all[i] = i
		}
		for r := 0; r < nr; r++ {
			w := map[string]int{"get": 40, "has": 15, "geta": 10, "count": 5, "items": 2, "filesize": 1, "metrics": 1}
			ops := genClient(rng, cfg, 150+rng.Intn(200), w, all, &id, concSizes)
			if r == 0 && rng.Intn(2) == 0 {
				ops = append(ops, Op{K: "close"})
			}
			p.Tasks = append(p.Tasks, ops)
		}
	}
	p.Cfg.RealFS = []string{"mem", "os", "osmmap"}[rng.Intn(3)]
	p.Cfg.Alias, p.Cfg.Poison, p.Cfg.ShortReads, p.Cfg.PermuteDir, p.Cfg.FSYields = false, false, false, false, false
	// more operations per task: real threads need time to overlap
	for i := range p.Tasks {
		for len(p.Tasks[i]) < 40 {
			p.Tasks[i] = append(p.Tasks[i], p.Tasks[i]...)
		}
	}
	return p
}

var raceCounter int64

func (raceEngine) Execute(p *Plan) *RunResult {
	res := newResult()
	newRaceReports() // discard anything older
	keys := p.KeyBytes()
	var fsys fs.FileSystem
	var root string
	switch p.Cfg.RealFS {
	case "os", "osmmap":
		d, err := os.MkdirTemp(realTmpBase(), "verif-race-")
		if err != nil {
			panic(err)
		}
		defer os.RemoveAll(d)
		root = d
		fsys = fs.OS
		if p.Cfg.RealFS == "osmmap" {
			fsys = fs.OSMMap
		}
	default:
		root = fmt.Sprintf("verif-race-mem-%d-%d", os.Getpid(), atomic.AddInt64(&raceCounter, 1))
		fsys = fs.Mem
		defer func() {
			removeTreeFS(fs.Mem, filepath.Join(root, "db"))
			removeTreeFS(fs.Mem, filepath.Join(root, "bk"))
		}()
	}
	res.Probes["real_run_on_"+p.Cfg.RealFS]++
	pogreb.SetLogger(log.New(io.Discard, "", 0))
	o := &pogreb.Options{FileSystem: fsys}
	if p.Cfg.SyncMode == 2 {
		o.BackgroundSyncInterval = -1
	} else if p.Cfg.BgSyncMs > 0 {
		o.BackgroundSyncInterval = time.Duration(p.Cfg.BgSyncMs) * time.Millisecond
	}
	if p.Cfg.BgCompactMs > 0 {
		o.BackgroundCompactionInterval = time.Duration(p.Cfg.BgCompactMs) * time.Millisecond
	}
	pogreb.VerifSetLimits(o, p.Cfg.MaxSeg, p.Cfg.CompMinSeg, p.Cfg.CompFrag)
	dir := filepath.Join(root, "db")
	db, err := pogreb.Open(dir, o)
	if err != nil {
		res.V = violf("open-failed", "Open on %s: %v", p.Cfg.RealFS, err)
		return res
	}
	for _, op := range p.Epochs0() {
		switch op.K {
		case "put":
			_ = db.Put(keys[op.Key], MakeValue(0, op.ID, op.Size))
		case "del":
			_ = db.Delete(keys[op.Key])
		}
	}
	if p.Cfg.RecoverFirst {
		// the preload was an earlier session: close it and start this one on files nobody has touched yet
		if err := db.Close(); err != nil {
			res.V = violf("close-failed", "Close of the earlier session on %s: %v", p.Cfg.RealFS, err)
			return res
		}
		if db, err = pogreb.Open(dir, o); err != nil {
			res.V = violf("open-failed", "Open after the earlier session on %s: %v", p.Cfg.RealFS, err)
			return res
		}
		res.Probes["race_run_cold_start"]++
	}
	var mu sync.Mutex
	var vio *Violation
	fail := func(v *Violation) {
		mu.Lock()
		if vio == nil {
			vio = v
		}
		mu.Unlock()
	}
	var closeInvoked, closeReturned, apiErrors int32
	var wg sync.WaitGroup
	start := make(chan struct{})
	for ti := range p.Tasks {
		ti := ti
		ops := p.Tasks[ti]
		wg.Add(1)
		go func() {
			defer wg.Done()
			old := debug.SetPanicOnFault(true)
			defer debug.SetPanicOnFault(old)
			defer func() {
				if r := recover(); r != nil {
					buf := make([]byte, 8192)
					buf = buf[:runtime.Stack(buf, false)]
					fail(violf("panic-or-fault", "task %d on %s: %v | %s", ti, p.Cfg.RealFS, r, trimStack(string(buf))))
				}
			}()
			lr := rand.New(rand.NewSource(p.Cfg.SchedSeed + int64(ti)))
			<-start
			for _, op := range ops {
				if lr.Intn(4) == 0 {
					runtime.Gosched()
				}
				var err error
				switch op.K {
				case "put":
					err = db.Put(keys[op.Key], MakeValue(ti+1, op.ID, op.Size))
				case "del":
					err = db.Delete(keys[op.Key])
				case "get":
					_, err = db.Get(keys[op.Key])
				case "geta":
					_, err = db.GetAppend(keys[op.Key], make([]byte, op.Size))
				case "has":
					_, err = db.Has(keys[op.Key])
				case "count":
					_ = db.Count()
				case "sync":
					err = db.Sync()
				case "compact":
					_, err = db.Compact()
					if isBusy(err) {
						err = nil
					}
				case "backup":
					err = db.Backup(filepath.Join(root, "bk"))
				case "filesize":
					_, err = db.FileSize()
				case "metrics":
					m := db.Metrics()
					_ = m.Puts.Value() + m.Gets.Value() + m.Dels.Value() + m.HashCollisions.Value()
				case "items":
					it := db.Items()
					for n := 0; n < 5000; n++ {
						_, _, e := it.Next()
						if e != nil {
							if e != pogreb.ErrIterationDone {
								err = e
							}
							break
						}
					}
				case "close":
					atomic.StoreInt32(&closeInvoked, 1)
					if e := db.Close(); e == nil {
						atomic.StoreInt32(&closeReturned, 1)
					}
				}
				if err != nil && atomic.LoadInt32(&closeInvoked) == 0 {
					// not a clause of the property this mode decides (race, panic, fault, deadlock): counted only.
					// Seen on the unchanged tree: FileSize on fs.OS fails with ENOENT when a compaction removes a
					// segment between its ReadDir and lstat.
					atomic.AddInt32(&apiErrors, 1)
				}
			}
		}()
	}
	close(start)
	done := make(chan struct{})
	go func() { wg.Wait(); close(done) }()
	select {
	case <-done:
	case <-time.After(60 * time.Second):
		buf := make([]byte, 1<<20)
		buf = buf[:runtime.Stack(buf, true)]
		var pg []string
		for _, g := range strings.Split(string(buf), "\n\n") {
			if strings.Contains(g, "akrylysov/pogreb") {
				pg = append(pg, trimStack(g))
			}
		}
		res.V = violf("deadlock-or-stall", "the tasks did not finish within 60 s on %s; goroutines inside the database: %s", p.Cfg.RealFS, strings.Join(pg, " || "))
		return res
	}
	if atomic.LoadInt32(&closeReturned) == 0 {
		if err := db.Close(); err != nil && vio == nil {
			fail(violf("close-failed", "Close on %s: %v", p.Cfg.RealFS, err))
		}
	}
	// "After Close returns, no goroutine started by the database is left running"
	time.Sleep(2 * time.Millisecond)
	buf := make([]byte, 1<<20)
	buf = buf[:runtime.Stack(buf, true)]
	for _, g := range strings.Split(string(buf), "\n\n") {
		if strings.Contains(g, "pogreb.(*DB).startBackgroundWorker") {
			fail(violf("goroutine-running-after-close", "a goroutine started by the database is still there after Close returned: %s", trimStack(g)))
		}
	}
	if rep := newRaceReports(); strings.Contains(rep, "WARNING: DATA RACE") {
		reports := strings.Split(rep, "WARNING: DATA RACE")
		first := reports[1]
		sig := raceSignature(first)
		if os.Getenv("VERIF_DEBUG") != "" {
			for _, r := range reports[1:] {
				fmt.Println("DEBUG race", p.Cfg.RealFS, raceSignature(r))
			}
		}
		var lines []string
		for _, l := range strings.Split(first, "\n") {
			l = strings.TrimSpace(l)
			if strings.HasPrefix(l, "Read at") || strings.HasPrefix(l, "Write at") || strings.HasPrefix(l, "Previous") || strings.Contains(l, "akrylysov/pogreb") {
				lines = append(lines, l)
			}
			if len(lines) > 14 {
				break
			}
		}
		res.Faults["race_reports"] += strings.Count(rep, "WARNING: DATA RACE")
		res.V = violf("data-race:"+p.Cfg.RealFS+":"+sig, "race detector report on %s: %s", p.Cfg.RealFS, strings.Join(lines, " | "))
		return res
	}
	if vio != nil {
		res.V = vio
		return res
	}
	res.Probes["api_errors_outside_close_race"] += int(atomic.LoadInt32(&apiErrors))
	res.Hashes = append(res.Hashes, uint64(p.Seed))
	res.NonTrivial = true
	res.Sample = map[string]interface{}{"seed": p.Seed, "fs": p.Cfg.RealFS, "tasks": len(p.Tasks), "ops": p.NumOps(), "bg_sync_ms": p.Cfg.BgSyncMs, "bg_compact_ms": p.Cfg.BgCompactMs}
	return res
}

var _ = bytes.Equal
