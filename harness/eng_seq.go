package harness

import (
	"bytes"
	"log"
	"math/rand"
	"os"
	"runtime/debug"
	"strings"

	"github.com/akrylysov/pogreb"
)

// RunResult is what one executed plan reports.
type RunResult struct {
	V           *Violation
	Probes      Probes
	Faults      map[string]int
	Evaluations int      // cases explored by this plan (crash points, damaged images, ...; >=1)
	Hashes      []uint64 // digests of distinct states / interleavings reached
	NonTrivial  bool
	Steps       int
	SimNanos    int64
	Inconclusive int
	Sample      interface{}
}

func newResult() *RunResult { return &RunResult{Probes: Probes{}, Faults: map[string]int{}, Evaluations: 1} }

// Engine generates and executes plans for one or more properties.
type Engine interface {
	Generate(rng *rand.Rand, prop string, thorough bool) *Plan
	Execute(p *Plan) *RunResult
}

// ---------------------------------------------------------------------------------------------
// Sequential, fault-free engine: C01, C02, C16 (and the baseline of everything else).

type seqEngine struct{ retainMode bool }

var bigValue []byte

func seqWeights(prop string, rng *rand.Rand) map[string]int {
	w := map[string]int{"put": 40, "del": 15, "get": 8, "geta": 4, "has": 4, "count": 3, "items": 2, "sync": 2, "compact": 3, "close": 0, "filesize": 1, "itemsc": 1}
	switch rng.Intn(4) {
	case 0: // delete heavy
		w["del"] = 40
	case 1: // compaction heavy
		w["compact"] = 10
	case 2: // read heavy
		w["get"], w["has"], w["geta"] = 20, 10, 10
	}
	if prop == "C02" {
		w["close"] = 4 + rng.Intn(8)
	}
	return w
}

func (se seqEngine) Generate(rng *rand.Rand, prop string, thorough bool) *Plan {
	cfg := GenCfg(rng)
	p := &Plan{Property: prop, Engine: "seq", Cfg: cfg}
	g := GenOpts{MinOps: 10, MaxOps: 200, Weights: seqWeights(prop, rng), Sessions: prop == "C02"}
	if se.retainMode {
		// C14: read a lot, keep what was returned, then make the files move under it
		cfg.Alias = rng.Intn(8) != 0
		cfg.Poison = cfg.Alias
		if cfg.Family == int(KFLengths) {
			cfg.Family = int(KFTiny)
		}
		cfg.MaxSeg = []uint32{600, 1024, 2048, 4096}[rng.Intn(4)]
		cfg.CompMinSeg = 1
		cfg.CompFrag = []float32{0.01, 0.1, 0.3}[rng.Intn(3)]
		p.Cfg = cfg
		p.Engine = "retain"
		g.Sessions = true
		g.Weights = map[string]int{"put": 30, "del": 10, "get": 25, "geta": 12, "has": 2, "count": 1, "items": 6, "sync": 2, "compact": 8, "close": 4, "filesize": 0, "itemsc": 4}
	}
	if thorough {
		g.MaxOps = 400
	}
	if prop == "C16" {
		cfg.Family = int(KFLengths)
		cfg.NKeys = []int{3, 6, 12}[rng.Intn(3)]
		g.Sessions = rng.Intn(2) == 0
		if g.Sessions {
			g.Weights["close"] = 5
		}
		g.MaxOps = 80
		g.Sizes = []int{0, 0, 1, 2, 60, 505, 506, 507, 511, 512, 513, 4085, 4086, 4090, 4096, 65536, int(cfg.MaxSeg) - 512 - 10 - 20, int(cfg.MaxSeg), int(cfg.MaxSeg) + 100}
		p.Cfg = cfg
	}
	keys := GenKeys(rng, KeyFamily(cfg.Family), cfg.NKeys, cfg.HashSeed)
	// 1 run in 5 (not C16, not C14): a big skewed key set - 60% of 100-240 keys agree in the low hash bits
	// (one chain of 2-5 overflow buckets that stays together through every split of its bucket), the rest
	// is spread, so the index keeps growing and splits that chain's bucket while deletes leave holes in it
	big := prop != "C16" && !se.retainMode && rng.Intn(5) == 0
	var pre []Op
	id := 0
	if big {
		n := []int{100, 160, 240}[rng.Intn(3)]
		keys = GenKeys(rng, KFLowBits, n*6/10, cfg.HashSeed)
		seen := map[string]bool{}
		for _, k := range keys {
			seen[string(k)] = true
		}
		for c := 0; len(keys) < n; c++ {
			k := []byte("r" + itoa(int(cfg.HashSeed%1000)) + "-" + itoa(c))
			if !seen[string(k)] {
				keys = append(keys, k)
			}
		}
		cfg.MaxSeg = []uint32{4096, 8192, 65536}[rng.Intn(3)]
		p.Cfg.MaxSeg = cfg.MaxSeg
		g.Sizes = []int{0, 1, 7, 16, 16, 60}
		g.MinOps, g.MaxOps = 60, 260
		// load most keys in a seeded order, deleting now and then, so that holes exist when buckets split
		for _, k := range rng.Perm(n) {
			if rng.Intn(10) == 0 {
				continue
			}
			id++
			pre = append(pre, Op{K: "put", Key: k, ID: id, Size: g.Sizes[rng.Intn(len(g.Sizes))]})
			if rng.Intn(6) == 0 {
				pre = append(pre, Op{K: "del", Key: rng.Intn(n)})
			}
			if g.Sessions && rng.Intn(40) == 0 {
				pre = append(pre, Op{K: "close"}, Op{K: "open"})
			}
		}
	}
	p.Cfg.NKeys = len(keys)
	cfg.NKeys = len(keys)
	p.SetKeys(keys)
	ops := append(pre, GenSeqOps(rng, cfg, g, &id)...)
	if big {
		// 1-3 times per run: empty one whole bucket that has buckets behind it in its chain (main or overflow),
		// at seeded positions of the history
		for n := 1 + rng.Intn(3); n > 0; n-- {
			pos := len(pre) + rng.Intn(len(ops)-len(pre)+1)
			if openAt(ops, pos) {
				ops = append(ops[:pos:pos], append([]Op{{K: "delbucket", ID: rng.Intn(1 << 16)}}, ops[pos:]...)...)
			}
		}
	}
	if prop == "C02" && rng.Intn(4) == 0 && len(ops) > 4 {
		// drain: at some point every key is deleted, the empty database is closed and reopened, and life goes on
		// (an index that grew and was emptied keeps its size and shape across the restart)
		pos := rng.Intn(len(ops))
		for !openAt(ops, pos) && pos > 0 {
			pos--
		}
		var drain []Op
		for k := 0; k < cfg.NKeys; k++ {
			drain = append(drain, Op{K: "del", Key: k})
		}
		drain = append(drain, Op{K: "count"}, Op{K: "close"}, Op{K: "open"})
		for _, k := range rng.Perm(cfg.NKeys) {
			id++
			drain = append(drain, Op{K: "put", Key: k, ID: id, Size: []int{0, 7, 16}[rng.Intn(3)]})
		}
		ops = append(ops[:pos:pos], append(drain, ops[pos:]...)...)
	}
	if prop == "C02" && rng.Intn(4) == 0 {
		// a write to a metadata file fails (ENOSPC) during one Close: that Close must not report success
		// unless everything is in place; after a reported failure the next Open recovers
		var pos []int
		for i, op := range ops {
			if op.K == "close" {
				pos = append(pos, i)
			}
		}
		if len(pos) > 0 {
			i := pos[rng.Intn(len(pos))]
			ops = append(ops[:i:i], append([]Op{{K: "closefail", Size: rng.Intn(6)}}, ops[i:]...)...)
		}
	}
	if prop == "C16" {
		// sprinkle limit probes
		extra := []string{"put-longkey", "put-longkey-alias", "get-longkey", "has-longkey", "del-longkey", "put-bigvalue"}
		n := 2 + rng.Intn(6)
		for i := 0; i < n; i++ {
			pos := rng.Intn(len(ops) + 1)
			op := Op{K: extra[rng.Intn(len(extra))], Key: rng.Intn(cfg.NKeys), Size: 1 + rng.Intn(300)}
			// must be placed while open: find state at pos
			if openAt(ops, pos) {
				ops = append(ops[:pos], append([]Op{op}, ops[pos:]...)...)
			}
		}
	}
	if prop == "C16" && os.Getenv("VERIF_BIG") != "" && (bigRuns == 1 || (thorough && bigRuns%40 == 1)) {
		// a value of exactly the 512 MiB limit, then an unclean shutdown, recovery and a compaction
		// (one worker only: about 3 GiB of memory for a few seconds)
		for pos := len(ops); pos >= 0; pos-- {
			if openAt(ops, pos) {
				// under the longest key of the universe: the largest record there can be
				longest := 0
				for i, k := range keys {
					if len(k) > len(keys[longest]) {
						longest = i
					}
				}
				ops = append(ops[:pos:pos], append([]Op{{K: "put-maxvalue", Key: longest}}, ops[pos:]...)...)
				// half a gigabyte per copy: the cheapest legal disk personality for this one run
				p.Cfg.Alias, p.Cfg.Poison, p.Cfg.ShortReads = true, false, false
				break
			}
		}
	}
	if prop == "C16" && os.Getenv("VERIF_BIG") != "" && (bigRuns == 0 || (thorough && bigRuns%40 == 0)) {
		// default segment limit (4 GiB - 1) and a current segment a few bytes below it: the records that
		// follow exceed the remaining space and must go to a new segment, offsets must not wrap
		p.Cfg.MaxSeg, p.Cfg.CompMinSeg, p.Cfg.CompFrag = 0, 0, 0
		p.Cfg.Alias, p.Cfg.Poison, p.Cfg.ShortReads = false, false, false
		ops = []Op{{K: "near-4gib", Size: 50 + rng.Intn(400)}}
		id := 1 << 20
		for i := 0; i < 12; i++ {
			id++
			ops = append(ops, Op{K: "put", Key: rng.Intn(cfg.NKeys), ID: id, Size: []int{0, 1, 60, 506, 4090}[rng.Intn(5)]})
			if rng.Intn(3) == 0 {
				ops = append(ops, Op{K: "get", Key: rng.Intn(cfg.NKeys)})
			}
		}
		ops = append(ops, Op{K: "close"}, Op{K: "open"}, Op{K: "count"})
	}
	if prop == "C16" {
		bigRuns++
	}
	p.Tasks = [][]Op{ops}
	return p
}

var bigRuns = func() int {
	if os.Getenv("VERIF_BIGSHAPE") == "maxvalue" {
		return 1 // development aid: start with the 512 MiB value
	}
	return 0
}()

func openAt(ops []Op, pos int) bool {
	open := true
	for i := 0; i < pos; i++ {
		switch ops[i].K {
		case "close":
			open = false
		case "open":
			open = true
		}
	}
	return open
}

func segmentDigest(fs *SimFS) uint64 {
	h := uint64(14695981039346656037)
	for _, n := range fs.FileNames() {
		if strings.HasSuffix(n, ".psg") {
			h = fnvAdd(h, []byte(n))
			h = fnvAdd(h, fs.FileBytes(n))
		}
	}
	return h
}

func (se seqEngine) Execute(p *Plan) *RunResult {
	res := newResult()
	e := NewEnv(p.Cfg, p.KeyBytes(), nil, false)
	if se.retainMode {
		e.RetainCap = 600
		defer func() {
			res.Faults["buffer_poisoned"] += e.FS.Stats.Poisoned
			res.Faults["file_remapped"] += e.FS.Stats.Remaps
		}()
	}
	defer func() { res.Probes.Add(e.Probes) }()
	fail := func(v *Violation) *RunResult { res.V = v; return res }
	if err := e.Open(); err != nil {
		return fail(violf("open-failed", "first Open: %v", err))
	}
	open := true
	mutatedThisSession := true
	var segAtOpen uint64
	states := map[uint64]bool{}
	noStructure := false // a run with a procedural multi-gigabyte file: nothing that reads whole files
	uncleanClose := false
	for i, op := range p.Tasks[0] {
		// tolerate plans mangled by minimisation
		if !open && op.K != "open" {
			continue
		}
		if open && op.K == "open" {
			continue
		}
		switch op.K {
		case "put", "del", "compact", "itemsc", "delbucket":
			mutatedThisSession = true
		}
		var v *Violation
		if op.K == "near-4gib" {
			v = e.doNear4GiB(op)
			noStructure = true
		} else if strings.Contains(op.K, "-long") || op.K == "put-bigvalue" || op.K == "put-maxvalue" {
			v = e.doLimit(op)
		} else {
			v = e.Do(op)
		}
		if v != nil {
			v.Detail = "op#" + itoa(i) + " " + op.String() + ": " + v.Detail
			return fail(v)
		}
		if se.retainMode {
			if v := e.CheckRetained("after op#" + itoa(i) + " " + op.String()); v != nil {
				return fail(v)
			}
		}
		switch op.K {
		case "close":
			open = false
			if e.UncleanClose {
				// Close failed with the injected write error: the session did not complete Close
				uncleanClose = true
				e.UncleanClose = false
				break
			}
			if noStructure {
				break
			}
			if v := e.CheckStructure(true); v != nil {
				v.Detail = "after Close at op#" + itoa(i) + ": " + v.Detail
				return fail(v)
			}
			if !mutatedThisSession && segmentDigest(e.FS) != segAtOpen {
				return fail(violf("empty-session-changed-files", "op#%d: a session without writes changed the segment files", i))
			}
			for _, n := range e.FS.FileNames() {
				if strings.HasSuffix(n, ".bac") {
					return fail(violf("stray-file", "file %s left behind after a clean Close", n))
				}
			}
		case "open":
			open = true
			mutatedThisSession = false
			if !noStructure {
				segAtOpen = segmentDigest(e.FS)
			}
			if uncleanClose {
				uncleanClose = false
				if !e.lastOpenRecovered {
					return fail(violf("failed-close-not-recovered", "op#%d: the previous Close returned an error (injected write error), yet this Open did not run recovery", i))
				}
				e.Probes["segment_truncated"], e.Probes["recovery_moved_file"] = 0, 0
				e.Probes["reopen_after_failed_close"]++
			} else {
				if e.lastOpenRecovered {
					return fail(violf("clean-reopen-recovered", "op#%d: Open after a clean Close ran recovery", i))
				}
				if e.Probes["segment_truncated"] > 0 || e.Probes["recovery_moved_file"] > 0 {
					return fail(violf("clean-reopen-recovered", "op#%d: Open after a clean Close truncated a segment or moved files aside", i))
				}
			}
			if v := e.CheckContents(); v != nil {
				v.Detail = "after reopen at op#" + itoa(i) + ": " + v.Detail
				return fail(v)
			}
			e.Probes["clean_reopen"]++
		}
		if open && !noStructure && (i%16 == 15 || op.K == "compact") {
			if v := e.CheckStructure(false); v != nil {
				v.Detail = "after op#" + itoa(i) + " " + op.String() + ": " + v.Detail
				return fail(v)
			}
			states[e.Model.Digest()^segmentDigest(e.FS)] = true
		}
	}
	if !open {
		if err := e.Open(); err != nil {
			return fail(violf("open-failed", "final Open: %v", err))
		}
		if e.lastOpenRecovered && !uncleanClose {
			return fail(violf("clean-reopen-recovered", "final Open after a clean Close ran recovery"))
		}
		if !e.lastOpenRecovered && uncleanClose {
			return fail(violf("failed-close-not-recovered", "the previous Close returned an error (injected write error), yet the final Open did not run recovery"))
		}
	}
	if v := e.CheckContents(); v != nil {
		v.Detail = "final check: " + v.Detail
		return fail(v)
	}
	if noStructure {
		if err := e.DB.Close(); err != nil {
			return fail(violf("api-error", "final Close: %v", err))
		}
		for _, n := range e.FS.FileNames() {
			if strings.HasSuffix(n, ".psg") && e.FS.FileSize(n) > 1<<32-1 {
				return fail(violf("segment-larger-than-4gib", "segment %s is %d bytes long: record offsets are 32 bits", n, e.FS.FileSize(n)))
			}
		}
		res.NonTrivial = true
		return res
	}
	if v := e.CheckStructure(false); v != nil {
		v.Detail = "final check: " + v.Detail
		return fail(v)
	}
	if v := e.CheckRetained("at the end"); v != nil {
		return fail(v)
	}
	if err := e.DB.Close(); err != nil {
		return fail(violf("api-error", "final Close: %v", err))
	}
	if v := e.CheckStructure(true); v != nil {
		v.Detail = "after final Close: " + v.Detail
		return fail(v)
	}
	if v := e.CheckRetained("after the final Close"); v != nil {
		return fail(v)
	}
	if h, _ := e.FS.OpenHandles(); h != 0 {
		return fail(violf("handle-leak", "%d file handles open after Close", h))
	}
	states[e.Model.Digest()^segmentDigest(e.FS)] = true
	for h := range states {
		res.Hashes = append(res.Hashes, h)
	}
	res.NonTrivial = e.Probes["segment_created"] > 1 || e.Probes["index_split"] > 0 || e.Probes["overflow_bucket_allocated"] > 0
	return res
}

func itoa(i int) string {
	var b [20]byte
	n := len(b)
	neg := i < 0
	if neg {
		i = -i
	}
	for {
		n--
		b[n] = byte('0' + i%10)
		i /= 10
		if i == 0 {
			break
		}
	}
	if neg {
		n--
		b[n] = '-'
	}
	return string(b[n:])
}

// doLimit executes the size-limit probes of C16.
func (e *Env) doLimit(op Op) *Violation {
	e.nAPI++
	stored := e.key(op.Key)
	// an over-long key whose length truncated to 16 bits equals the length of a stored key and whose
	// prefix is that key
	long := make([]byte, 65536+len(stored))
	copy(long, stored)
	for i := len(stored); i < len(long); i++ {
		long[i] = byte(i)
	}
	if op.K == "put-longkey" {
		long = make([]byte, 65536+op.Size-1)
	}
	before := len(e.FS.Journal)
	mut := 0
	prev := e.FS.OnMutate
	e.FS.OnMutate = func(j *JEntry) { mut++; prev(j) }
	defer func() { e.FS.OnMutate = prev }()
	_ = before
	switch op.K {
	case "put-longkey", "put-longkey-alias":
		err := e.DB.Put(long, []byte("x"))
		if err == nil {
			return violf("limit-not-enforced", "Put with a %d-byte key returned nil", len(long))
		}
	case "put-maxvalue":
		return e.doMaxValue(stored)
	case "put-bigvalue":
		if bigValue == nil {
			bigValue = make([]byte, 512<<20+1)
		}
		err := e.DB.Put(stored, bigValue[:512<<20+1])
		if err == nil {
			return violf("limit-not-enforced", "Put with a value of 512 MiB + 1 returned nil")
		}
	case "get-longkey":
		got, err := e.DB.Get(long)
		if err != nil || got != nil {
			return violf("longkey-matched", "Get with a %d-byte key = %s, %v (want nil, nil)", len(long), showVal(got), err)
		}
		got, err = e.DB.GetAppend(long, []byte("pre"))
		if err != nil || got != nil {
			return violf("longkey-matched", "GetAppend with a %d-byte key = %s, %v (want nil, nil)", len(long), showVal(got), err)
		}
	case "has-longkey":
		got, err := e.DB.Has(long)
		if err != nil || got {
			return violf("longkey-matched", "Has with a %d-byte key = %v, %v", len(long), got, err)
		}
	case "del-longkey":
		err := e.DB.Delete(long)
		if err != nil {
			return violf("api-error", "Delete with a %d-byte key: %v", len(long), err)
		}
	}
	if strings.HasPrefix(op.K, "put-") && mut != 0 {
		return violf("rejected-put-touched-files", "a rejected Put made %d mutating file-system calls", mut)
	}
	e.Probes["limit_probe_"+op.K]++
	// contents unchanged: compare the stored key and Count
	got, err := e.DB.Get(stored)
	if err != nil {
		return violf("api-error", "Get: %v", err)
	}
	want, _ := e.Model.Get(stored)
	if !eqNil(got, want) || !bytes.Equal(got, want) {
		return violf("limit-probe-changed-contents", "after %s the stored key reads %s, model has %s", op.K, showVal(got), showVal(want))
	}
	if int(e.DB.Count()) != len(e.Model.M) {
		return violf("limit-probe-changed-contents", "after %s Count() = %d, model has %d", op.K, e.DB.Count(), len(e.Model.M))
	}
	return nil
}

// doMaxValue: a value of exactly MaxValueLength round-trips, also across an unclean shutdown with
// recovery, and the segment holding it can be compacted.
func (e *Env) doMaxValue(key []byte) *Violation {
	// half-gigabyte objects: collect eagerly while this runs
	oldGC := debug.SetGCPercent(25)
	defer func() {
		debug.SetGCPercent(oldGC)
		debug.FreeOSMemory()
	}()
	if bigValue == nil {
		bigValue = make([]byte, 512<<20+1)
	}
	v := bigValue[:512<<20]
	copy(v, "max-value-begin")
	copy(v[len(v)-13:], "max-value-end")
	defer func() {
		for i := 0; i < 15; i++ {
			v[i] = 0
		}
		for i := len(v) - 13; i < len(v); i++ {
			v[i] = 0
		}
	}()
	if err := e.DB.Put(key, v); err != nil {
		return violf("max-value-rejected", "Put with a value of exactly 512 MiB: %v", err)
	}
	small := append([]byte(nil), "after-the-big-one"...)
	other := e.Keys[(indexOfKey(e.Keys, key)+1)%len(e.Keys)]
	if !bytes.Equal(other, key) {
		if err := e.DB.Put(other, small); err != nil {
			return violf("api-error", "Put after the 512 MiB value: %v", err)
		}
		e.Model.M[string(other)] = small
	}
	e.Model.M[string(key)] = v // shared, not copied
	check := func(db *pogreb.DB, when string) *Violation {
		got, err := db.Get(key)
		if err != nil {
			return violf("max-value-lost", "%s: Get of the 512 MiB value: %v", when, err)
		}
		if !bytes.Equal(got, v) {
			return violf("max-value-lost", "%s: the 512 MiB value reads back as %d bytes %s", when, len(got), showVal(got))
		}
		if !bytes.Equal(other, key) {
			if got, err := db.Get(other); err != nil || !bytes.Equal(got, small) {
				return violf("max-value-lost", "%s: the key written after the 512 MiB value reads %s, %v", when, showVal(got), err)
			}
		}
		return nil
	}
	if vv := check(e.DB, "right after the Put"); vv != nil {
		return vv
	}
	debug.FreeOSMemory()
	// unclean shutdown: the image as it is now (lock file present), recovered by a fresh Open
	im := e.FS.Snapshot()
	r := NewEnv(e.Cfg, e.Keys, im, false)
	r.NoRetain = true
	defer func() {
		e.InstallSeedSource()
		pogreb.SetLogger(log.New(e.LogBuf, "", 0))
	}()
	im = nil
	debug.FreeOSMemory()
	if err := r.Open(); err != nil {
		return violf("open-failed-after-crash", "Open on the image holding a 512 MiB value: %v", err)
	}
	if !r.lastOpenRecovered {
		return violf("harness", "the image of the unclean shutdown was opened without recovery")
	}
	if vv := check(r.DB, "after an unclean shutdown and recovery"); vv != nil {
		return vv
	}
	if int(r.DB.Count()) != len(e.Model.M) {
		return violf("max-value-lost", "after recovery Count() = %d, want %d", r.DB.Count(), len(e.Model.M))
	}
	// overwrite it (the segment becomes garbage) and compact
	if err := r.DB.Put(key, small); err != nil {
		return violf("api-error", "overwriting the 512 MiB value after recovery: %v", err)
	}
	if _, err := r.DB.Compact(); err != nil {
		return violf("max-value-not-compactable", "Compact of the segment holding the 512 MiB value: %v", err)
	}
	if err := r.DB.Close(); err != nil {
		return violf("api-error", "Close: %v", err)
	}
	e.Probes["max_value_roundtrip"]++
	// and in the live database: delete it again so that the rest of the history stays cheap
	if err := e.DB.Delete(key); err != nil {
		return violf("api-error", "Delete of the 512 MiB value: %v", err)
	}
	delete(e.Model.M, string(key))
	if _, err := e.DB.Compact(); err != nil {
		return violf("max-value-not-compactable", "Compact of the segment holding the 512 MiB value: %v", err)
	}
	return nil
}

func indexOfKey(keys [][]byte, k []byte) int {
	for i, x := range keys {
		if bytes.Equal(x, k) {
			return i
		}
	}
	return 0
}

// doNear4GiB turns the current segment into one that is a few bytes short of the default segment limit
// (4 GiB - 1): one real record, a clean Close, the file extended by a procedural (zero) middle part - a clean
// Open never reads it -, a clean Open. What is written afterwards lands at offsets near 2^32.
func (e *Env) doNear4GiB(op Op) *Violation {
	k := e.key(0)
	val := MakeValue(0, 1<<19, 16)
	if err := e.DB.Put(k, val); err != nil {
		return violf("api-error", "Put: %v", err)
	}
	e.Model.Put(k, val)
	if err := e.DB.Close(); err != nil {
		return violf("api-error", "Close: %v", err)
	}
	seg := ""
	for _, n := range e.FS.FileNames() {
		if strings.HasSuffix(n, ".psg") {
			seg = n
		}
	}
	if seg == "" {
		return violf("harness", "no segment file")
	}
	real := append([]byte(nil), e.FS.FileBytes(seg)...)
	length := int64(1<<32) - int64(op.Size)
	e.FS.SetVirtualPrefix(seg, length, func(off int64, p []byte) {
		for i := range p {
			p[i] = 0
		}
		if off < int64(len(real)) {
			copy(p, real[off:])
		}
	})
	if err := e.Open(); err != nil {
		return violf("open-failed", "Open with a segment of %d bytes: %v", length, err)
	}
	if e.lastOpenRecovered {
		return violf("clean-reopen-recovered", "Open after a clean Close ran recovery")
	}
	e.Probes["segment_near_4gib"]++
	return nil
}
