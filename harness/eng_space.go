package harness

import (
	"fmt"
	"math/rand"
	"os"
	"regexp"
	"sort"
	"strings"
)

// ---------------------------------------------------------------------------------------------
// C15: compaction reclaims space, nothing leaks, the database stays usable.
//
// A long steady overwrite/delete workload over a fixed key universe in cycles
// (writes ... Compact, then Sync/Put/Delete/Backup/Close-Open in random subsets), including
// "purge" cycles that delete every key so that compaction removes every segment. After every
// API call the directory and the handle table of the simulated disk are audited.

type spaceEngine struct{}

var (
	reSegFile  = regexp.MustCompile(`^[0-9]{5}-[0-9]+\.psg$`)
	reSegMeta  = regexp.MustCompile(`^([0-9]{5}-[0-9]+\.psg)\.pmt$`)
	otherFiles = map[string]bool{"main.pix": true, "overflow.pix": true, "index.pmt": true, "db.pmt": true, "lock": true}
)

func (spaceEngine) Generate(rng *rand.Rand, prop string, thorough bool) *Plan {
	cfg := GenCfg(rng)
	cfg.NKeys = []int{3, 6, 12, 24, 40, 64, 90}[rng.Intn(7)]
	cfg.Family = []int{int(KFTiny), int(KFLowBits), int(KFLowBits), int(KFMixed)}[rng.Intn(4)]
	if cfg.Family == int(KFTiny) && cfg.NKeys > 60 {
		cfg.NKeys = 40
	}
	cfg.MaxSeg = []uint32{4096, 4096, 8192, 16384}[rng.Intn(4)]
	cfg.CompMinSeg = []uint32{1, 513, 1024}[rng.Intn(3)]
	cfg.CompFrag = []float32{0.05, 0.1, 0.25, 0.5}[rng.Intn(4)]
	p := &Plan{Property: prop, Engine: "space", Cfg: cfg}
	keys := GenKeys(rng, KeyFamily(cfg.Family), cfg.NKeys, cfg.HashSeed)
	p.Cfg.NKeys = len(keys)
	cfg.NKeys = len(keys)
	p.SetKeys(keys)
	sizes := []int{0, 1, 12, 16, 40, 100, 200, 300}
	prof := []int{sizes[rng.Intn(len(sizes))], sizes[rng.Intn(len(sizes))]}
	cycles := 6 + rng.Intn(20)
	if thorough {
		cycles = 10 + rng.Intn(60)
	}
	id := 0
	var ops []Op
	put := func(k int) {
		id++
		sz := prof[rng.Intn(len(prof))]
		if rng.Intn(5) == 0 {
			sz = sizes[rng.Intn(len(sizes))]
		}
		ops = append(ops, Op{K: "put", Key: k, ID: id, Size: sz})
	}
	delProb := []int{10, 25, 50}[rng.Intn(3)]
	// shapes: 0 = compaction after the writes of the same session (restarts now and then);
	// 1 = one session per cycle, compaction FIRST ("compact on startup"), then the writes, then Close:
	//     the garbage of a session is only ever seen by the next one, through the persisted segment metas;
	// 2 = like 0 with bursts of idle restarts (Close/Open with nothing in between)
	shape := rng.Intn(3)
	idle := func() {
		for k := 2 + rng.Intn(6); k > 0; k-- {
			ops = append(ops, Op{K: "close"}, Op{K: "open"})
		}
	}
	if shape == 1 {
		// every session rewrites a multiple of the live data, so whatever is not reclaimed shows quickly
		prof = []int{100, 200, 300}
	}
	for c := 0; c < cycles && shape == 1; c++ {
		ops = append(ops, Op{K: "compact"})
		// each key is rewritten about once per session: what a session seals is fully live when its meta is
		// persisted and fully dead one session later
		for _, k := range rng.Perm(cfg.NKeys) {
			if rng.Intn(100) < delProb/3 {
				ops = append(ops, Op{K: "del", Key: k})
			} else if rng.Intn(10) != 0 {
				put(k)
			}
		}
		if rng.Intn(8) == 0 {
			for k := 0; k < cfg.NKeys; k++ {
				ops = append(ops, Op{K: "del", Key: k})
			}
		}
		if rng.Intn(4) == 0 {
			ops = append(ops, Op{K: []string{"sync", "backup"}[rng.Intn(2)]})
		}
		ops = append(ops, Op{K: "close"}, Op{K: "open"})
		if rng.Intn(6) == 0 {
			idle()
		}
	}
	if shape == 1 {
		ops = append(ops, Op{K: "compact"})
		cycles = 0
	}
	for c := 0; c < cycles; c++ {
		purge := rng.Intn(8) == 0
		n := cfg.NKeys/2 + rng.Intn(cfg.NKeys*2+1)
		for i := 0; i < n; i++ {
			k := rng.Intn(cfg.NKeys)
			if rng.Intn(100) < delProb {
				ops = append(ops, Op{K: "del", Key: k})
			} else {
				put(k)
			}
		}
		if purge {
			for k := 0; k < cfg.NKeys; k++ {
				ops = append(ops, Op{K: "del", Key: k})
			}
		}
		if rng.Intn(6) == 0 {
			ops = append(ops, Op{K: "close"}, Op{K: "open"})
		}
		ops = append(ops, Op{K: "compact"})
		if shape == 2 && (purge || rng.Intn(5) == 0) {
			idle()
		}
		// the database must remain fully usable afterwards
		for _, k := range []string{"sync", "put", "del", "backup", "reopen", "compact"} {
			if rng.Intn(3) != 0 {
				continue
			}
			switch k {
			case "put":
				put(rng.Intn(cfg.NKeys))
			case "del":
				ops = append(ops, Op{K: "del", Key: rng.Intn(cfg.NKeys)})
			case "reopen":
				ops = append(ops, Op{K: "close"}, Op{K: "open"})
			default:
				ops = append(ops, Op{K: k})
			}
		}
	}
	p.Tasks = [][]Op{ops}
	return p
}

type dirAudit struct {
	segs      []string
	segBytes  int64
	idxBytes  int64
	metaBytes int64
	files     int
	emptySegs int
}

// auditDir checks that every file of the database directory belongs to a live segment, the index,
// the database metadata or the lock, and returns the sizes.
func auditDir(fs *SimFS, open bool) (dirAudit, *Violation) {
	var a dirAudit
	names := map[string]bool{}
	for _, n := range fs.FileNames() {
		if !strings.HasPrefix(n, dbDir+"/") {
			continue
		}
		names[strings.TrimPrefix(n, dbDir+"/")] = true
	}
	var sorted []string
	for n := range names {
		sorted = append(sorted, n)
	}
	sort.Strings(sorted)
	for _, n := range sorted {
		a.files++
		size := int64(len(fs.FileBytes(dbDir + "/" + n)))
		switch {
		case reSegFile.MatchString(n):
			a.segs = append(a.segs, n)
			a.segBytes += size
			if size <= walHeaderSize {
				a.emptySegs++
			}
		case reSegMeta.MatchString(n):
			seg := reSegMeta.FindStringSubmatch(n)[1]
			if !names[seg] {
				return a, violf("orphan-segment-meta", "side file %s is in the directory but its segment %s is gone", n, seg)
			}
			a.metaBytes += size
		case n == "main.pix" || n == "overflow.pix":
			a.idxBytes += size
		case otherFiles[n]:
			a.metaBytes += size
		default:
			return a, violf("stray-file", "file %s in the database directory belongs to no live segment, the index, the metadata or the lock", n)
		}
	}
	if open && !names["lock"] {
		return a, violf("lock-file-missing", "the database is open and there is no lock file")
	}
	if !open && names["lock"] {
		return a, violf("lock-file-left", "the database was closed and the lock file is still there")
	}
	return a, nil
}

func liveBytes(m *Model) int64 {
	var n int64
	for k, v := range m.M {
		n += int64(len(k)) + int64(len(v)) + 10
	}
	return n
}

func (spaceEngine) Execute(p *Plan) *RunResult {
	res := newResult()
	e := NewEnv(p.Cfg, p.KeyBytes(), nil, false)
	defer func() { res.Probes.Add(e.Probes) }()
	fail := func(v *Violation) *RunResult { res.V = v; return res }
	if err := e.Open(); err != nil {
		return fail(violf("open-failed", "first Open: %v", err))
	}
	open := true
	maxKeys := 0
	states := map[uint64]bool{}
	cycles := 0
	var peakSeg, peakIdx int64
	frag := float64(p.Cfg.CompFrag)
	for i, op := range p.Tasks[0] {
		if !open && op.K != "open" {
			continue
		}
		if open && op.K == "open" {
			continue
		}
		var before dirAudit
		if op.K == "compact" {
			before, _ = auditDir(e.FS, true)
		}
		compactedBefore := e.Probes["compacted_segments"]
		v := e.Do(op)
		if v != nil {
			if v.Class == "api-error" {
				v.Class = "unusable-after-compaction"
			}
			v.Detail = fmt.Sprintf("op#%d %s: %s", i, op, v.Detail)
			return fail(v)
		}
		switch op.K {
		case "close":
			open = false
		case "open":
			open = true
			if e.lastOpenRecovered {
				return fail(violf("clean-reopen-recovered", "op#%d: Open after a clean Close ran recovery", i))
			}
			e.Probes["clean_reopen"]++
		}
		if len(e.Model.M) > maxKeys {
			maxKeys = len(e.Model.M)
		}
		a, av := auditDir(e.FS, open)
		if av != nil {
			av.Detail = fmt.Sprintf("after op#%d %s: %s", i, op, av.Detail)
			return fail(av)
		}
		// a segment file without a single record is at most the current one: more of them belong to no live data
		if a.emptySegs > 1 {
			return fail(violf("empty-segments-pile-up", "after op#%d %s: %d segment files hold no record at all (%d segment files in the directory, %d live keys)", i, op, a.emptySegs, len(a.segs), len(e.Model.M)))
		}
		// descriptors / mappings: exactly the live segments and the two index files while open, none after Close
		h, per := e.FS.OpenHandles()
		want := 0
		if open {
			want = len(a.segs) + 2
		}
		if h != want {
			return fail(violf("handle-leak", "after op#%d %s: %d file handles are open, want %d (%d live segments + 2 index files while open, 0 after Close): %v", i, op, h, want, len(a.segs), per))
		}
		if l := e.FS.LocksHeld(); (open && l != 1) || (!open && l != 0) {
			return fail(violf("lock-leak", "after op#%d %s: %d locks held (database open: %v)", i, op, l, open))
		}
		// the index is bounded by the largest number of keys that were ever live together
		idxBound := int64(512) * int64(6+maxKeys/6)
		if a.idxBytes > idxBound {
			return fail(violf("index-grows-with-history", "after op#%d %s: index files take %d bytes; at most %d keys were ever live together (bound %d)", i, op, a.idxBytes, maxKeys, idxBound))
		}
		if a.idxBytes > peakIdx {
			peakIdx = a.idxBytes
		}
		if op.K == "compact" {
			cycles++
			n := e.Probes["compacted_segments"] - compactedBefore
			// "every segment it reports compacted is gone from the directory together with its metadata side file"
			gone := 0
			after := map[string]bool{}
			for _, s := range a.segs {
				after[s] = true
			}
			for _, s := range before.segs {
				if !after[s] {
					gone++
				}
			}
			if gone != n {
				return fail(violf("compacted-segment-not-removed", "op#%d: Compact reported %d compacted segments, %d of the %d segment files present before it are gone", i, n, gone, len(before.segs)))
			}
			if n > 0 && len(a.segs) == 0 {
				e.Probes["compaction_removed_every_segment"]++
			}
			live := liveBytes(e.Model)
			bound := int64(1.5*float64(live)/(1-frag)) + 2*int64(p.Cfg.MaxSeg) + 2048
			if a.segBytes > bound {
				return fail(violf("space-not-reclaimed", "op#%d (compaction #%d of the run): the segments take %d bytes for %d bytes of live records (fragmentation threshold %.2f, segment size %d, bound %d)", i, cycles, a.segBytes, live, frag, p.Cfg.MaxSeg, bound))
			}
			if os.Getenv("VERIF_DEBUG") != "" {
				fmt.Printf("DEBUG space seg=%d bound=%d ratio=%.2f live=%d idx=%d idxbound=%d\n", a.segBytes, bound, float64(a.segBytes)/float64(bound), live, a.idxBytes, idxBound)
			}
			if a.segBytes > peakSeg {
				peakSeg = a.segBytes
			}
			if v := e.CheckStructure(false); v != nil {
				v.Detail = fmt.Sprintf("after op#%d %s: %s", i, op, v.Detail)
				return fail(v)
			}
			states[e.Model.Digest()^segmentDigest(e.FS)] = true
		}
	}
	if !open {
		if err := e.Open(); err != nil {
			return fail(violf("open-failed", "final Open: %v", err))
		}
	}
	if v := e.CheckContents(); v != nil {
		v.Detail = "final check: " + v.Detail
		return fail(v)
	}
	if err := e.DB.Close(); err != nil {
		return fail(violf("unusable-after-compaction", "final Close: %v", err))
	}
	if _, av := auditDir(e.FS, false); av != nil {
		av.Detail = "after the final Close: " + av.Detail
		return fail(av)
	}
	if h, per := e.FS.OpenHandles(); h != 0 {
		return fail(violf("handle-leak", "%d file handles open after the final Close: %v", h, per))
	}
	if v := e.CheckStructure(true); v != nil {
		v.Detail = "after the final Close: " + v.Detail
		return fail(v)
	}
	for h := range states {
		res.Hashes = append(res.Hashes, h)
	}
	res.Evaluations = cycles
	if cycles == 0 {
		res.Evaluations = 1
	}
	res.Probes["compaction_cycles"] += cycles
	res.NonTrivial = e.Probes["segment_removed"] > 0
	res.Sample = map[string]interface{}{"seed": p.Seed, "ops": len(p.Tasks[0]), "compactions": cycles, "segments_removed": e.Probes["segment_removed"], "peak_segment_bytes_after_compaction": peakSeg, "peak_index_bytes": peakIdx, "max_live_keys": maxKeys, "cfg": p.Cfg}
	return res
}
