package harness

import (
	"bytes"
	"encoding/binary"
	"fmt"
	"log"
	"math/rand"
	"os"
	"path/filepath"
	"runtime/debug"
	"sort"
	"strings"

	"github.com/akrylysov/pogreb"
	"github.com/akrylysov/pogreb/fs"
	"verif.local/sim/simrand"
)

// ---------------------------------------------------------------------------------------------
// Cross-file-system engine: one seeded program (writes, deletes, compaction, clean restarts,
// unclean shutdowns taken as a copy of the directory right before the k-th mutating file-system
// call of an operation, optionally with the in-flight write torn at a sector boundary or garbage
// appended to the newest segment) is executed on the simulated disk, fs.Mem, fs.OS and
// fs.OSMMap (real files, real mmap, real flock, in a run-time temporary directory).
//
//	C17: per-call results and segment bytes must be identical on all of them (and equal the model)
//	C14: slices returned by Get/GetAppend/Next stay readable and unchanged (real munmap: a slice
//	     into a mapping faults after Close; faults are turned into panics and caught)
//	C15: real descriptors and mappings under the database directory are counted via /proc/self

type xfsEngine struct{ focus string }

type xfsTarget struct {
	name string
	fsys fs.FileSystem
	root string
	real bool
	sim  *SimFS
	// alt: the directory is opened alternately through fsys and alt (fs.OS <-> fs.OSMMap), session by session
	alt fs.FileSystem
}

func realTmpBase() string {
	if st, err := os.Stat("/dev/shm"); err == nil && st.IsDir() {
		if d, err := os.MkdirTemp("/dev/shm", "verif-probe-"); err == nil {
			os.Remove(d)
			return "/dev/shm"
		}
	}
	return os.TempDir()
}

var xfsCounter int

func (x xfsEngine) Generate(rng *rand.Rand, prop string, thorough bool) *Plan {
	cfg := GenCfg(rng)
	cfg.NKeys = []int{2, 3, 5, 8, 16, 33}[rng.Intn(6)]
	if cfg.Family == int(KFLengths) {
		cfg.Family = int(KFTiny)
	}
	cfg.MaxSeg = []uint32{1024, 2048, 4096, 8192, 65536}[rng.Intn(5)]
	if x.focus == "C15" {
		cfg.CompMinSeg = []uint32{1, 513}[rng.Intn(2)]
		cfg.CompFrag = []float32{0.01, 0.1, 0.3}[rng.Intn(3)]
	}
	// the initial mapping of fs.OSMMap: shipped 1 GiB, or small enough that files outgrow it and get remapped.
	// The shipped code doubles the mapping ONCE per growth, which is enough because no single write is larger
	// than the initial mapping (a record is at most 512 MiB + 64 KiB, the mapping at least 1 GiB). The knob keeps
	// that precondition: it is never set below the largest record of the run (see the sizes below).
	cfg.MmapInit = []int64{0, 1024, 2048, 4096, 8192, 65536}[rng.Intn(6)]
	if x.focus == "C16" {
		cfg.MmapInit = 1024 // raised below to the largest record: records of up to one whole mapping
	}
	p := &Plan{Property: prop, Engine: "xfs", Cfg: cfg}
	keys := GenKeys(rng, KeyFamily(cfg.Family), cfg.NKeys, cfg.HashSeed)
	p.Cfg.NKeys = len(keys)
	cfg.NKeys = len(keys)
	p.SetKeys(keys)
	w := map[string]int{"put": 40, "del": 14, "get": 10, "geta": 4, "has": 3, "count": 2, "items": 3, "sync": 3, "compact": 5, "close": 4, "filesize": 1, "itemsc": 2}
	switch x.focus {
	case "C14":
		w["get"], w["geta"], w["items"], w["compact"], w["close"] = 25, 10, 8, 8, 6
	case "C15":
		w["compact"], w["del"], w["close"] = 12, 25, 5
	}
	g := GenOpts{MinOps: 8, MaxOps: 90, Weights: w, Sessions: true, Sizes: []int{0, 1, 8, 16, 60, 200, 490, 506, 512, 600, 1100, 4090}}
	if thorough {
		g.MaxOps = 200
	}
	if x.focus == "C16" {
		g.Sizes = [][]int{{0, 1, 200, 490, 900}, {0, 16, 900, 1900, 2040}, {1, 60, 2000, 3900, 4080}, {0, 506, 4090, 8000, 16000}}[rng.Intn(4)]
	} else if cfg.MmapInit > 0 && cfg.MmapInit < 8192 && rng.Intn(2) == 0 {
		g.Sizes = []int{0, 1, 8, 16, 60, 200, 490} // small records: the small mapping settings stay admissible
	}
	id := 0
	ops := GenSeqOps(rng, cfg, g, &id)
	maxRec := int64(0)
	for _, op := range ops {
		if op.K == "put" {
			if r := int64(op.Size) + 64 + 10; r > maxRec {
				maxRec = r
			}
		}
	}
	for cfg.MmapInit > 0 && cfg.MmapInit < maxRec {
		cfg.MmapInit *= 2
	}
	p.Cfg.MmapInit = cfg.MmapInit
	// unclean shutdowns: a crash marker applies to the operation that follows it
	ncrash := rng.Intn(3)
	if x.focus == "C15" {
		ncrash = 0 // the property quantifies over clean restarts
	}
	for c := 0; c < ncrash; c++ {
		// candidate positions: before a put/del/compact/sync/close executed while open
		var pos []int
		for i, op := range ops {
			if openAt(ops, i) && (op.K == "put" || op.K == "del" || op.K == "compact" || op.K == "sync" || op.K == "close") && (i == 0 || ops[i-1].K != "crash") {
				pos = append(pos, i)
			}
		}
		if len(pos) == 0 {
			break
		}
		i := pos[rng.Intn(len(pos))]
		k := rng.Intn(6)
		if ops[i].K == "compact" || ops[i].K == "close" {
			k = rng.Intn(40)
		}
		cr := Op{K: "crash", Key: k, Size: rng.Intn(1000), ID: rng.Intn(4)}
		ops = append(ops[:i], append([]Op{cr}, ops[i:]...)...)
	}
	p.Tasks = [][]Op{ops}
	return p
}

func segSeqOf(name string) (uint64, bool) {
	sn, ok := ParseSegName(name)
	return sn.Seq, ok
}

type xfsRetained struct {
	live, snap []byte
	what       string
}

type xfsRun struct {
	trace    []string
	v        *Violation
	probes   Probes
	faults   map[string]int
	retained []xfsRetained
}

// readGuarded compares a retained slice with its snapshot; a memory fault while reading it is caught.
func readGuarded(r xfsRetained) (same bool, fault interface{}) {
	defer func() {
		if p := recover(); p != nil {
			fault = p
		}
	}()
	return bytes.Equal(r.live, r.snap), nil
}

func countProc(root string) (fds, maps int) {
	es, _ := os.ReadDir("/proc/self/fd")
	for _, e := range es {
		if t, err := os.Readlink("/proc/self/fd/" + e.Name()); err == nil && strings.HasPrefix(t, root) {
			fds++
		}
	}
	if b, err := os.ReadFile("/proc/self/maps"); err == nil {
		for _, l := range strings.Split(string(b), "\n") {
			if strings.Contains(l, root) {
				maps++
			}
		}
	}
	return
}

func (x xfsEngine) exec(t xfsTarget, p *Plan) (run *xfsRun) {
	run = &xfsRun{probes: Probes{}, faults: map[string]int{}}
	keys := p.KeyBytes()
	cfg := p.Cfg
	old := debug.SetPanicOnFault(true)
	defer debug.SetPanicOnFault(old)
	tr := func(format string, a ...interface{}) { run.trace = append(run.trace, fmt.Sprintf(format, a...)) }
	fail := func(v *Violation) *xfsRun {
		if run.v == nil {
			v.Detail = "[" + t.name + "] " + v.Detail
			run.v = v
		}
		return run
	}
	// the same hash seeds on every file system
	seedCalls := 0
	simrand.SetSource(func(b []byte) {
		s := cfg.HashSeed
		if cfg.FreshSeeds {
			s = murmur3([]byte{byte(seedCalls), byte(seedCalls >> 8)}, cfg.HashSeed)
		}
		seedCalls++
		var w [4]byte
		binary.LittleEndian.PutUint32(w[:], s)
		for i := range b {
			b[i] = w[i%4]
		}
	})
	logBuf := &bytes.Buffer{}
	pogreb.SetLogger(log.New(logBuf, "", 0))
	tap := newTapFS(t.fsys, cfg.FSSeed, cfg.PermuteDir)
	gen := 0
	dir := filepath.Join(t.root, "gen0")
	opts := func() *pogreb.Options {
		o := &pogreb.Options{FileSystem: tap}
		if cfg.SyncMode == 2 {
			o.BackgroundSyncInterval = -1
		}
		pogreb.VerifSetLimits(o, cfg.MaxSeg, cfg.CompMinSeg, cfg.CompFrag)
		return o
	}
	var db *pogreb.DB
	model := NewModel()
	nOpens := 0
	mapped := t.name == "osmmap"
	open := func() error {
		logBuf.Reset()
		if t.alt != nil {
			// cross-file-system reopen: this session uses the other implementation on the same directory
			if nOpens%2 == 0 {
				tap.inner, mapped = t.fsys, false
			} else {
				tap.inner, mapped = t.alt, true
			}
			nOpens++
			run.probes["cross_fs_reopen"]++
		}
		d, err := pogreb.Open(dir, opts())
		if err != nil {
			return err
		}
		db = d
		return nil
	}
	// every call into the database is guarded: a memory fault (stale mapping) becomes a violation
	guard := func(what string, f func()) (v *Violation) {
		defer func() {
			if r := recover(); r != nil {
				v = violf("memory-fault-or-panic", "%s panicked: %v", what, r)
			}
		}()
		f()
		return nil
	}
	var capFault *Violation
	retain := func(b []byte, what string) {
		if cap(b) == 0 || len(run.retained) >= 400 {
			return
		}
		run.retained = append(run.retained, xfsRetained{live: b, snap: append([]byte(nil), b...), what: what})
		// the slice is the caller's up to its capacity: the caller appends to it in place. If that memory is
		// a read-only mapping this faults; if it is a file buffer, the database's own data is damaged and
		// later reads disagree with the model.
		if t.sim != nil && t.sim.Overlaps(b[:cap(b)]) && capFault == nil {
			capFault = violf("returned-slice-aliases-file", "slice returned by %s (len %d, cap %d) points into a file buffer", what, len(b), cap(b))
		}
		if spare := b[len(b):cap(b)]; len(spare) > 0 && capFault == nil {
			func() {
				defer func() {
					if r := recover(); r != nil {
						capFault = violf("returned-slice-faults", "appending in place to the slice returned by %s (len %d, cap %d) faults: %v", what, len(b), cap(b), r)
					}
				}()
				for i := range spare {
					spare[i] ^= 0xFF
				}
			}()
			run.probes["spare_capacity_used"]++
		}
	}
	checkRetained := func(when string) *Violation {
		if capFault != nil {
			return capFault
		}
		for _, r := range run.retained {
			same, fault := readGuarded(r)
			if fault != nil {
				return violf("returned-slice-faults", "reading a slice returned by %s %s faults: %v", r.what, when, fault)
			}
			if !same {
				return violf("returned-slice-changed", "slice returned by %s changed %s: was %s now %s", r.what, when, clip(r.snap), clip(r.live))
			}
			if t.sim != nil && t.sim.Overlaps(r.live[:cap(r.live)]) {
				return violf("returned-slice-aliases-file", "slice returned by %s points into a file buffer (%s)", r.what, when)
			}
		}
		run.probes["retained_slices_checked"] += len(run.retained)
		return nil
	}
	segDigest := func() (string, int, error) {
		ns, err := listDirFS(t.fsys, dir)
		if err != nil {
			return "", 0, err
		}
		var b strings.Builder
		n := 0
		for _, name := range ns {
			if !strings.HasSuffix(name, ".psg") {
				continue
			}
			data, err := readFileFS(t.fsys, filepath.Join(dir, name))
			if err != nil {
				return "", 0, err
			}
			n++
			fmt.Fprintf(&b, "%s:%d:%016x ", name, len(data), fnvAdd(14695981039346656037, data))
		}
		return b.String(), n, nil
	}
	isOpen := false
	checkpoint := func(when string) *Violation {
		d, nseg, err := segDigest()
		if err != nil {
			return violf("harness-io", "reading the segment files: %v", err)
		}
		tr("segments %s: %s", when, d)
		if t.real {
			fds, maps := countProc(t.root)
			wantFds, wantMaps := 0, 0
			if isOpen {
				wantFds = nseg + 3 // segments + main.pix + overflow.pix + lock
				if mapped {
					wantMaps = nseg + 2
				}
			}
			run.probes["proc_fd_samples"]++
			if fds != wantFds {
				return violf("descriptor-leak", "%s: %d descriptors are open under the database directory, want %d (%d segments; open=%v)", when, fds, wantFds, nseg, isOpen)
			}
			if maps != wantMaps {
				return violf("mapping-leak", "%s: %d memory mappings of database files exist, want %d (%d segments; open=%v)", when, maps, wantMaps, nseg, isOpen)
			}
		}
		return nil
	}
	if err := open(); err != nil {
		return fail(violf("open-failed", "first Open: %v", err))
	}
	isOpen = true
	var pending *Op
	ops := p.Tasks[0]
	doOp := func(i int, op Op) *Violation {
		var v *Violation
		switch op.K {
		case "put":
			k := append([]byte(nil), keys[op.Key%len(keys)]...)
			val := MakeValue(0, op.ID, op.Size)
			arg := append([]byte(nil), val...)
			var err error
			if v = guard("Put", func() { err = db.Put(k, arg) }); v != nil {
				return v
			}
			scribble(k)
			scribble(arg)
			tr("op#%d %s -> err=%v", i, op, err != nil)
			if err != nil {
				return violf("api-error", "op#%d %s: %v", i, op, err)
			}
			model.Put(keys[op.Key%len(keys)], val)
		case "del":
			k := append([]byte(nil), keys[op.Key%len(keys)]...)
			var err error
			if v = guard("Delete", func() { err = db.Delete(k) }); v != nil {
				return v
			}
			scribble(k)
			tr("op#%d %s -> err=%v", i, op, err != nil)
			if err != nil {
				return violf("api-error", "op#%d %s: %v", i, op, err)
			}
			model.Delete(keys[op.Key%len(keys)])
		case "get", "geta":
			k := append([]byte(nil), keys[op.Key%len(keys)]...)
			var got []byte
			var err error
			pre := make([]byte, op.Size, op.Size+8)
			for j := range pre {
				pre[j] = byte(0x40 + j%26)
			}
			if v = guard("Get", func() {
				if op.K == "get" {
					got, err = db.Get(k)
				} else {
					got, err = db.GetAppend(k, pre)
				}
			}); v != nil {
				return v
			}
			scribble(k)
			tr("op#%d %s -> nil=%v %x err=%v", i, op, got == nil, got, err != nil)
			if err != nil {
				return violf("api-error", "op#%d %s: %v", i, op, err)
			}
			want, ok := model.Get(keys[op.Key%len(keys)])
			if op.K == "get" {
				if !eqNil(got, want) {
					return violf("get-mismatch", "op#%d %s = %s, model has %s", i, op, showVal(got), showVal(want))
				}
			} else if ok {
				if exp := append(append([]byte(nil), pre...), want...); !bytes.Equal(got, exp) {
					return violf("getappend-mismatch", "op#%d %s = %s, want prefix+%s", i, op, showVal(got), showVal(want))
				}
			} else if got != nil {
				return violf("getappend-mismatch", "op#%d %s = %s for a missing key", i, op, showVal(got))
			}
			retain(got, op.K)
		case "has":
			var got bool
			var err error
			if v = guard("Has", func() { got, err = db.Has(keys[op.Key%len(keys)]) }); v != nil {
				return v
			}
			tr("op#%d %s -> %v err=%v", i, op, got, err != nil)
			if err != nil {
				return violf("api-error", "op#%d %s: %v", i, op, err)
			}
			if _, want := model.Get(keys[op.Key%len(keys)]); got != want {
				return violf("has-mismatch", "op#%d %s = %v, model says %v", i, op, got, want)
			}
		case "count":
			var n uint32
			if v = guard("Count", func() { n = db.Count() }); v != nil {
				return v
			}
			tr("op#%d count -> %d", i, n)
			if int(n) != len(model.M) {
				return violf("count-mismatch", "op#%d Count() = %d, model has %d", i, n, len(model.M))
			}
		case "items":
			var pairs []string
			var err error
			if v = guard("Items", func() {
				it := db.Items()
				for n := 0; n < len(model.M)+1000; n++ {
					k, val, e := it.Next()
					if e == pogreb.ErrIterationDone {
						return
					}
					if e != nil {
						err = e
						return
					}
					pairs = append(pairs, fmt.Sprintf("%08d", len(k))+string(k)+string(val))
					if n < 6 {
						retain(k, "Next(key)")
						retain(val, "Next(value)")
					}
				}
				err = fmt.Errorf("scan does not terminate")
			}); v != nil {
				return v
			}
			if err != nil {
				return violf("api-error", "op#%d items: %v", i, err)
			}
			sort.Strings(pairs)
			tr("op#%d items -> %d %016x", i, len(pairs), fnvAdd(7, []byte(strings.Join(pairs, "\x01"))))
			if len(pairs) != len(model.M) {
				return violf("scan-mismatch", "op#%d: scan returned %d items, model has %d keys", i, len(pairs), len(model.M))
			}
			for _, pr := range pairs {
				kl := 0
				fmt.Sscanf(pr[:8], "%d", &kl)
				kv := []string{pr[8 : 8+kl], pr[8+kl:]}
				if mv, ok := model.M[kv[0]]; !ok || string(mv) != kv[1] {
					return violf("scan-mismatch", "op#%d: scan returned %s=%s, model has %s", i, clip([]byte(kv[0])), showVal([]byte(kv[1])), showVal(mv))
				}
			}
		case "itemsc":
			// a scan paused after op.Size items while Compact removes segments, then drained
			var pairs []string
			var err error
			var cr pogreb.CompactionResult
			if v = guard("Items across Compact", func() {
				it := db.Items()
				ran := false
				for n := 0; n < len(model.M)+1000; n++ {
					if n >= op.Size && !ran {
						ran = true
						if cr, err = db.Compact(); err != nil {
							return
						}
					}
					k, val, e := it.Next()
					if e == pogreb.ErrIterationDone {
						return
					}
					if e != nil {
						err = e
						return
					}
					pairs = append(pairs, fmt.Sprintf("%08d", len(k))+string(k)+string(val))
				}
				err = fmt.Errorf("scan does not terminate")
			}); v != nil {
				return v
			}
			if err != nil {
				return violf("api-error", "op#%d items across compact: %v", i, err)
			}
			if cr.CompactedSegments > 0 {
				run.probes["compaction_inside_scan"]++
			}
			sort.Strings(pairs)
			tr("op#%d itemsc -> %d %016x %+v", i, len(pairs), fnvAdd(7, []byte(strings.Join(pairs, "\x01"))), cr)
			if len(pairs) != len(model.M) {
				return violf("scan-mismatch", "op#%d: a scan paused across a compaction returned %d items, model has %d keys", i, len(pairs), len(model.M))
			}
			for _, pr := range pairs {
				kl := 0
				fmt.Sscanf(pr[:8], "%d", &kl)
				if mv, ok := model.M[pr[8:8+kl]]; !ok || string(mv) != pr[8+kl:] {
					return violf("scan-mismatch", "op#%d: a scan paused across a compaction returned %s=%s, model has %s", i, clip([]byte(pr[8:8+kl])), showVal([]byte(pr[8+kl:])), showVal(mv))
				}
			}
		case "sync":
			var err error
			if v = guard("Sync", func() { err = db.Sync() }); v != nil {
				return v
			}
			tr("op#%d sync -> err=%v", i, err != nil)
			if err != nil {
				return violf("api-error", "op#%d Sync: %v", i, err)
			}
		case "compact":
			var cr pogreb.CompactionResult
			var err error
			if v = guard("Compact", func() { cr, err = db.Compact() }); v != nil {
				return v
			}
			tr("op#%d compact -> %+v err=%v", i, cr, err != nil)
			if err != nil {
				return violf("api-error", "op#%d Compact: %v", i, err)
			}
			if cr.CompactedSegments > 0 {
				run.probes["compacted_segments"] += cr.CompactedSegments
			}
		case "filesize":
			var n int64
			var err error
			if v = guard("FileSize", func() { n, err = db.FileSize() }); v != nil {
				return v
			}
			tr("op#%d filesize -> %d err=%v", i, n, err != nil)
			if err != nil {
				return violf("api-error", "op#%d FileSize: %v", i, err)
			}
		case "close":
			var err error
			if v = guard("Close", func() { err = db.Close() }); v != nil {
				return v
			}
			tr("op#%d close -> err=%v", i, err != nil)
			if err != nil {
				return violf("api-error", "op#%d Close: %v", i, err)
			}
			isOpen = false
			db = nil
			if v := checkRetained("after Close"); v != nil {
				return v
			}
			if v := checkpoint(fmt.Sprintf("after close op#%d", i)); v != nil {
				return v
			}
		case "open":
			var err error
			if v = guard("Open", func() { err = open() }); v != nil {
				return v
			}
			tr("op#%d open -> err=%v recovered=%v", i, err != nil, strings.Contains(logBuf.String(), "started recovery"))
			if err != nil {
				return violf("open-failed", "op#%d Open: %v", i, err)
			}
			isOpen = true
			run.probes["clean_reopen"]++
			if strings.Contains(logBuf.String(), "started recovery") {
				return violf("clean-reopen-recovered", "op#%d: Open after a clean Close ran recovery", i)
			}
		default:
			panic("xfs: unknown op " + op.K)
		}
		return nil
	}
	for i, op := range ops {
		if op.K == "crash" {
			c := op
			pending = &c
			continue
		}
		if !isOpen && op.K != "open" {
			continue
		}
		if isOpen && op.K == "open" {
			continue
		}
		if pending == nil {
			if v := doOp(i, op); v != nil {
				return fail(v)
			}
			if isOpen && i%8 == 7 {
				if v := checkpoint(fmt.Sprintf("after op#%d", i)); v != nil {
					return fail(v)
				}
			}
			continue
		}
		// unclean shutdown: copy the directory right before the k-th mutating call of this operation
		cr := *pending
		pending = nil
		before := model.Clone()
		gen++
		snapDir := filepath.Join(t.root, fmt.Sprintf("gen%d", gen))
		fired := false
		var snapErr error
		var inflight tapCall
		tap.arm(cr.Key, func(c tapCall) {
			fired = true
			inflight = c
			inflight.Data = append([]byte(nil), c.Data...)
			snapErr = copyTreeFS(t.fsys, dir, snapDir)
		})
		v := doOp(i, op)
		tap.disarm()
		if v != nil {
			return fail(v)
		}
		if snapErr != nil {
			return fail(violf("harness-io", "copying the directory: %v", snapErr))
		}
		after := model
		if !fired {
			if err := copyTreeFS(t.fsys, dir, snapDir); err != nil {
				return fail(violf("harness-io", "copying the directory: %v", err))
			}
			before = after.Clone()
			tr("crash after op#%d", i)
			run.faults["unclean_shutdown_between_ops"]++
		} else {
			tr("crash in op#%d before call %d: %s %s off=%d len=%d", i, cr.Key, inflight.Kind, filepath.Base(inflight.Name), inflight.Off, len(inflight.Data))
			run.faults["unclean_shutdown_inside_op"]++
		}
		// damage to the image - only to the image of an unclean shutdown (lock file present): a tail that
		// is torn or followed by garbage is what a crash leaves, not what a completed Close leaves
		snapHasLock := false
		if ns, err := listDirFS(t.fsys, snapDir); err == nil {
			for _, n := range ns {
				if n == "lock" {
					snapHasLock = true
				}
			}
		}
		switch {
		case !snapHasLock:
		case cr.ID == 1 && fired && inflight.Kind == "write":
			cuts := TornCuts(inflight.Off, len(inflight.Data))
			if len(cuts) > 0 {
				cut := cuts[cr.Size%len(cuts)]
				name := filepath.Join(snapDir, filepath.Base(inflight.Name))
				data, err := readFileFS(t.fsys, name)
				if err == nil {
					end := cut
					if int64(len(data)) < end {
						data = append(data, make([]byte, end-int64(len(data)))...)
					}
					copy(data[inflight.Off:end], inflight.Data[:cut-inflight.Off])
					err = writeFileFS(t.fsys, name, data)
				}
				if err != nil {
					return fail(violf("harness-io", "tearing the in-flight write: %v", err))
				}
				tr("torn write up to %d", cut)
				run.faults["torn_write"]++
			}
		case cr.ID == 2 || cr.ID == 3:
			ns, _ := listDirFS(t.fsys, snapDir)
			newest, best := "", uint64(0)
			for _, n := range ns {
				if s, ok := segSeqOf(n); ok && (newest == "" || s > best) {
					newest, best = n, s
				}
			}
			if newest != "" {
				name := filepath.Join(snapDir, newest)
				data, err := readFileFS(t.fsys, name)
				if err == nil && len(data) < walHeaderSize {
					// the newest segment was created and has no header yet: appending bytes to it would forge a
					// header, which is not a torn tail
					tr("tail damage skipped")
				} else if err == nil {
					lr := rand.New(rand.NewSource(int64(cr.Size)*7919 + int64(i)))
					extra := make([]byte, 1+lr.Intn(700))
					if cr.ID == 3 {
						lr.Read(extra)
						// keep the claimed lengths small: unbounded claims are another property's subject
						if len(extra) >= 6 {
							extra[1] = 0
							extra[4], extra[5] = 0, 0
						}
					}
					err = writeFileFS(t.fsys, name, append(data, extra...))
					tr("tail damage kind %d: %d bytes", cr.ID, len(extra))
				}
				if err != nil {
					return fail(violf("harness-io", "damaging the tail: %v", err))
				}
				run.faults["damaged_tail"]++
			}
		}
		// the old handle is released (its directory is abandoned)
		if isOpen {
			var err error
			if v := guard("Close", func() { err = db.Close() }); v != nil {
				return fail(v)
			}
			if err != nil {
				return fail(violf("api-error", "Close of the abandoned handle after op#%d: %v", i, err))
			}
			db = nil
			if v := checkRetained("after Close"); v != nil {
				return fail(v)
			}
		}
		removeTreeFS(t.fsys, dir)
		dir = snapDir
		hadLock := false
		if ns, err := listDirFS(t.fsys, dir); err == nil {
			for _, n := range ns {
				if n == "lock" {
					hadLock = true
				}
			}
		}
		var err error
		if hadLock && cr.Size%3 == 0 {
			// 1 unclean shutdown in 3: the recovering Open itself is cut short - the directory is copied right before
			// its k-th mutating call (moved-aside index files, a half-rebuilt index and truncated segments are what
			// the next recovery starts from), the Open completes on the abandoned directory and its handle is released
			gen++
			snap2 := filepath.Join(t.root, fmt.Sprintf("gen%d", gen))
			fired2 := false
			var snapErr2 error
			tap.arm((cr.Size/3)%30, func(c tapCall) {
				fired2 = true
				snapErr2 = copyTreeFS(t.fsys, dir, snap2)
			})
			v := guard("Open", func() { err = open() })
			tap.disarm()
			if v != nil {
				return fail(v)
			}
			if err != nil {
				return fail(violf("open-failed-after-crash", "Open after the unclean shutdown at op#%d: %v", i, err))
			}
			if snapErr2 != nil {
				return fail(violf("harness-io", "copying the directory: %v", snapErr2))
			}
			if v := guard("Close", func() { err = db.Close() }); v != nil {
				return fail(v)
			}
			if err != nil {
				return fail(violf("api-error", "Close after the recovery of the unclean shutdown at op#%d: %v", i, err))
			}
			db = nil
			if fired2 {
				removeTreeFS(t.fsys, dir)
				dir = snap2
				tr("crash in the recovery of op#%d before call %d", i, (cr.Size/3)%30)
				run.faults["unclean_shutdown_inside_recovery"]++
			} else {
				// the recovery made fewer mutating calls: the next Open is a clean reopen of the recovered directory
				hadLock = false
				tr("recovery of op#%d completed and closed", i)
			}
		}
		if v := guard("Open", func() { err = open() }); v != nil {
			return fail(v)
		}
		if err != nil {
			return fail(violf("open-failed-after-crash", "Open after the unclean shutdown at op#%d: %v", i, err))
		}
		isOpen = true
		recovered := strings.Contains(logBuf.String(), "started recovery")
		if hadLock && !recovered {
			return fail(violf("unclean-shutdown-not-recovered", "Open on the image of an unclean shutdown (op#%d, lock file present) did not run recovery", i))
		}
		if !hadLock && recovered {
			return fail(violf("clean-reopen-recovered", "Open on an image without a lock file (op#%d: the shutdown was complete) ran recovery", i))
		}
		if recovered {
			run.probes["recovery_ran"]++
		}
		// contents: per key the state before or after the operation in flight
		obs := NewModel()
		for ki, kb := range keys {
			var got []byte
			if v := guard("Get", func() { got, err = db.Get(kb) }); v != nil {
				return fail(v)
			}
			if err != nil {
				return fail(violf("api-error-after-recovery", "Get(k%d): %v", ki, err))
			}
			b, bok := before.Get(kb)
			a, aok := after.Get(kb)
			okB := (got == nil && !bok) || (got != nil && bok && bytes.Equal(got, b))
			okA := (got == nil && !aok) || (got != nil && aok && bytes.Equal(got, a))
			if !okB && !okA {
				return fail(violf("wrong-contents-after-recovery", "after the unclean shutdown at op#%d key k%d reads %s; before the operation in flight it was %s, after it %s", i, ki, showVal(got), showVal(b), showVal(a)))
			}
			if got != nil {
				obs.Put(kb, got)
			}
		}
		model = obs
		tr("recovered after op#%d: %016x", i, model.Digest())
		var n uint32
		if v := guard("Count", func() { n = db.Count() }); v != nil {
			return fail(v)
		}
		if int(n) != len(model.M) {
			return fail(violf("count-mismatch-after-recovery", "after the unclean shutdown at op#%d Count() = %d, %d keys are readable", i, n, len(model.M)))
		}
		if v := checkpoint(fmt.Sprintf("after recovery op#%d", i)); v != nil {
			return fail(v)
		}
	}
	if !isOpen {
		if err := open(); err != nil {
			return fail(violf("open-failed", "final Open: %v", err))
		}
		isOpen = true
	}
	if v := doOp(len(ops), Op{K: "items"}); v != nil {
		return fail(v)
	}
	if v := doOp(len(ops)+1, Op{K: "close"}); v != nil {
		return fail(v)
	}
	if v := checkRetained("at the end"); v != nil {
		return fail(v)
	}
	return run
}

func (x xfsEngine) targets(p *Plan) ([]xfsTarget, func()) {
	xfsCounter++
	var ts []xfsTarget
	var dirs []string
	mk := func() string {
		d, err := os.MkdirTemp(realTmpBase(), "verif-xfs-")
		if err != nil {
			panic(err)
		}
		dirs = append(dirs, d)
		return d
	}
	sim := NewSimFS(FSConfig{Alias: p.Cfg.Alias, Poison: p.Cfg.Poison, ShortReads: p.Cfg.ShortReads, Seed: p.Cfg.FSSeed}, nil)
	memRoot := fmt.Sprintf("verif-xfs-mem-%d-%d", os.Getpid(), xfsCounter)
	all := []xfsTarget{
		{name: "simfs", fsys: sim, root: "x", sim: sim},
		{name: "mem", fsys: fs.Mem, root: memRoot},
		{name: "os", fsys: fs.OS, root: "", real: true},
		{name: "osmmap", fsys: fs.OSMMap, root: "", real: true},
		{name: "os<->osmmap", fsys: fs.OS, alt: fs.OSMMap, root: "", real: true},
	}
	for _, t := range all {
		switch x.focus {
		case "C14":
			if t.name == "os" || t.alt != nil {
				continue
			}
		case "C16":
			if t.name != "simfs" && t.name != "osmmap" {
				continue
			}
		case "C15":
			if !t.real || t.alt != nil {
				continue
			}
		}
		if t.real {
			t.root = mk()
		}
		ts = append(ts, t)
	}
	cleanup := func() {
		for _, d := range dirs {
			os.RemoveAll(d)
		}
		for g := 0; g < 64; g++ {
			removeTreeFS(fs.Mem, filepath.Join(memRoot, fmt.Sprintf("gen%d", g)))
		}
	}
	return ts, cleanup
}

var xfsClasses = map[string]map[string]bool{
	"C14": {"returned-slice-faults": true, "returned-slice-changed": true, "returned-slice-aliases-file": true, "memory-fault-or-panic": true},
	"C15": {"descriptor-leak": true, "mapping-leak": true, "api-error": true},
}

func (x xfsEngine) Execute(p *Plan) *RunResult {
	res := newResult()
	ts, cleanup := x.targets(p)
	defer cleanup()
	if p.Cfg.MmapInit > 0 {
		setInitialMmapSize(p.Cfg.MmapInit)
		res.Probes["small_initial_mapping"]++
	} else {
		setInitialMmapSize(1024 << 20)
	}
	defer setInitialMmapSize(1024 << 20)
	var runs []*xfsRun
	for _, t := range ts {
		r := x.exec(t, p)
		runs = append(runs, r)
		res.Probes.Add(r.probes)
		for k, v := range r.faults {
			res.Faults[k+"@"+t.name] += v
			res.Faults[k] += v
		}
		res.Probes["program_executed_on_"+t.name]++
		if r.v != nil {
			if cl, ok := xfsClasses[x.focus]; ok && !cl[r.v.Class] {
				// not this property's subject (the check of the property it belongs to reports it)
				res.Probes["offtopic_anomaly_"+r.v.Class]++
				return res
			}
			res.V = r.v
			return res
		}
	}
	res.Evaluations = len(runs)
	if x.focus == "" || x.focus == "C17" {
		ref := runs[0]
		for ti := 1; ti < len(runs); ti++ {
			a, b := ref.trace, runs[ti].trace
			n := len(a)
			if len(b) < n {
				n = len(b)
			}
			for i := 0; i < n; i++ {
				if a[i] != b[i] {
					class := "fs-dependent-result"
					if strings.HasPrefix(a[i], "segments ") {
						class = "fs-dependent-segment-bytes"
					}
					res.V = violf(class, "the same program behaves differently on %s and %s at trace line %d: %s: %q / %s: %q", ts[0].name, ts[ti].name, i, ts[0].name, clipS200(a[i]), ts[ti].name, clipS200(b[i]))
					return res
				}
			}
			if len(a) != len(b) {
				res.V = violf("fs-dependent-result", "the same program yields %d trace lines on %s and %d on %s", len(a), ts[0].name, len(b), ts[ti].name)
				return res
			}
		}
		res.Hashes = append(res.Hashes, fnvAdd(99, []byte(strings.Join(ref.trace, "\n"))))
	} else {
		res.Hashes = append(res.Hashes, fnvAdd(98, []byte(strings.Join(runs[0].trace, "\n"))))
	}
	res.NonTrivial = res.Probes["recovery_ran"] > 0 || res.Probes["compacted_segments"] > 0
	res.Sample = map[string]interface{}{"seed": p.Seed, "ops": len(p.Tasks[0]), "first_ops": opsString(p.Tasks[0], 14), "file_systems": len(ts), "trace_lines": len(runs[0].trace), "cfg": p.Cfg}
	return res
}

func clipS200(s string) string {
	if len(s) > 200 {
		return s[:200] + ".."
	}
	return s
}
