package harness

import "testing"

func extraEngineFor(prop string, t *testing.T) Engine {
	switch prop {
	case "C07":
		return linEngine{t: t}
	case "C05":
		return multiEngine{engines: map[string]Engine{"compact": compactEngine{t: t}, "crash": crashEngine{}}, order: []string{"compact", "crash"}, weights: []int{3, 1}}
	case "C06":
		return multiEngine{engines: map[string]Engine{"crash": crashEngine{}, "compact-ploss": compactEngine{t: t, ploss: true}}, order: []string{"crash", "compact-ploss"}, weights: []int{3, 1}}
	case "C10":
		return chaosEngine{t}
	case "C10R":
		return raceEngine{}
	case "C11":
		return multiEngine{engines: map[string]Engine{"scan": scanEngine{t}, "seq": seqEngine{}}, order: []string{"scan", "seq"}, weights: []int{3, 1}}
	case "C15":
		return multiEngine{engines: map[string]Engine{"space": spaceEngine{}, "xfs": xfsEngine{"C15"}, "bgspace": bgSpaceEngine{t}}, order: []string{"space", "xfs", "bgspace"}, weights: []int{4, 1, 2}}
	case "C13":
		return lockEngine{t}
	case "C14":
		return multiEngine{engines: map[string]Engine{"retain": seqEngine{retainMode: true}, "xfs": xfsEngine{"C14"}, "lin": linEngine{t: t, poison: true}},
			order: []string{"retain", "xfs", "lin"}, weights: []int{5, 3, 2}}
	case "C18":
		return multiEngine{engines: map[string]Engine{"golden": goldenEngine{}, "format": formatEngine{}}, order: []string{"golden", "format"}, weights: []int{1, 1}}
	case "C17":
		return xfsEngine{"C17"}
	case "C12":
		return backupEngine{t}
	}
	return nil
}
