package harness

import "testing"

func extraEngineFor(prop string, t *testing.T) Engine {
	switch prop {
	case "C07":
		return linEngine{t}
	}
	return nil
}
