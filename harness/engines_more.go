package harness

import "testing"

func extraEngineFor(prop string, t *testing.T) Engine { return nil }
