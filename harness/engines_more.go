package harness

import "testing"

func extraEngineFor(prop string, t *testing.T) Engine {
	switch prop {
	case "C07":
		return linEngine{t}
	case "C05":
		return multiEngine{engines: map[string]Engine{"compact": compactEngine{t}, "crash": crashEngine{}}, order: []string{"compact", "crash"}, weights: []int{3, 1}}
	case "C10":
		return chaosEngine{t}
	case "C11":
		return multiEngine{engines: map[string]Engine{"scan": scanEngine{t}, "seq": seqEngine{}}, order: []string{"scan", "seq"}, weights: []int{3, 1}}
	case "C15":
		return spaceEngine{}
	case "C12":
		return backupEngine{t}
	}
	return nil
}
