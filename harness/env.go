package harness

import (
	"bytes"
	"encoding/binary"
	"encoding/gob"
	"fmt"
	"log"
	"os"
	"sort"
	"strings"
	"time"

	"github.com/akrylysov/pogreb"
	"verif.local/sim/sched"
	"verif.local/sim/simrand"
)

const dbDir = "db"

// Probes counts how often a run reached the situations a property is about.
type Probes map[string]int

func (p Probes) Add(o Probes) {
	for k, v := range o {
		p[k] += v
	}
}

// Env is one database under test together with its reference model.
type Env struct {
	Cfg    Cfg
	Keys   [][]byte
	FS     *SimFS
	DB     *pogreb.DB
	Model  *Model
	Probes Probes
	LogBuf *bytes.Buffer

	seedCalls  int
	curSeed    uint32
	haveSeed   bool
	// WalAllowed, when set, relaxes CheckStructure's log check from equality with the model to
	// membership: per key the log replay must yield one of the listed values (C10: a write that
	// failed in the race with Close may have reached the log and not the index, or the reverse).
	WalAllowed map[string]valset
	nAPI       int
	retained   []retained
	NoRetain   bool
	RetainCap  int // 0 = 64
	// LastFailedWriteApplied: the last write that failed with an injected error turned out to be applied
	LastFailedWriteApplied bool
	// LastWriteFailed: the Put/Delete/Sync just executed returned the injected I/O error
	LastWriteFailed bool
	// UncleanClose: the last Close failed with the injected error (the next Open must recover)
	UncleanClose bool
	// IOFaultSeen (sticky, carried over restarts): an I/O error was injected into a record append. pogreb
	// leaves the stored part of that record behind the logical end of the segment; if nothing overwrites
	// it (the segment is sealed next), the file ends in bytes that are not a record. No listed property
	// speaks about behaviour after a failed file-system call, so two things are relaxed from then on,
	// and only these: the independent decoder may find an invalid TAIL (records after it would still be
	// missing from the replay and be reported), and Compact may return an error.
	IOFaultSeen bool
	Recoveries int
	lastOpenRecovered bool
	// OnAPI, when set, is called right before every API call with its index (1-based).
	OnAPI func(idx int, op Op)
}

type retained struct {
	live []byte
	snap []byte
	what string
}

func NewEnv(cfg Cfg, keys [][]byte, initial *Image, journal bool) *Env {
	e := &Env{Cfg: cfg, Keys: keys, Model: NewModel(), Probes: Probes{}, LogBuf: &bytes.Buffer{}}
	e.FS = NewSimFS(FSConfig{Alias: cfg.Alias, Poison: cfg.Poison, ShortReads: cfg.ShortReads, PermuteDir: cfg.PermuteDir, Journal: journal, Seed: cfg.FSSeed}, initial)
	e.FS.OnMutate = e.observe
	e.InstallSeedSource()
	pogreb.SetLogger(log.New(e.LogBuf, "", 0))
	return e
}

// InstallSeedSource makes this Env the owner of the process-wide randomness seam.
func (e *Env) InstallSeedSource() {
	simrand.SetSource(func(p []byte) {
		s := e.Cfg.HashSeed
		if e.Cfg.FreshSeeds {
			s = murmur3([]byte{byte(e.seedCalls), byte(e.seedCalls >> 8)}, e.Cfg.HashSeed)
		}
		e.seedCalls++
		var b [4]byte
		binary.LittleEndian.PutUint32(b[:], s)
		for i := range p {
			p[i] = b[i%4]
		}
		e.curSeed = s
		e.haveSeed = true
	})
}

func (e *Env) observe(j *JEntry) {
	base := j.Name
	if i := strings.LastIndexByte(base, '/'); i >= 0 {
		base = base[i+1:]
	}
	if !strings.HasPrefix(j.Name, dbDir+"/") {
		return
	}
	switch {
	case j.Kind == JTruncate && base == "main.pix" && j.Size > 1024:
		e.Probes["index_split"]++
	case j.Kind == JTruncate && base == "overflow.pix" && j.Size > 512:
		e.Probes["overflow_bucket_allocated"]++
	case j.Kind == JCreate && strings.HasSuffix(base, ".psg"):
		e.Probes["segment_created"]++
	case j.Kind == JRemove && strings.HasSuffix(base, ".psg"):
		e.Probes["segment_removed"]++
		if len(e.retained) > 0 {
			e.Probes["segment_removed_while_slices_retained"]++
		}
	case j.Kind == JTruncate && strings.HasSuffix(base, ".psg"):
		e.Probes["segment_truncated"]++
	case j.Kind == JRename && strings.HasSuffix(j.Name2, ".bac"):
		e.Probes["recovery_moved_file"]++
	}
}

func (e *Env) Options() *pogreb.Options {
	o := &pogreb.Options{FileSystem: e.FS}
	if e.Cfg.SyncMode == 2 {
		o.BackgroundSyncInterval = -1
	} else if e.Cfg.BgSyncMs > 0 && sched.Active() != nil {
		o.BackgroundSyncInterval = time.Duration(e.Cfg.BgSyncMs) * time.Millisecond
	}
	// the background worker is only started under the scheduler: outside a simulation it would be a
	// real goroutine on real tickers that outlives the check of the image
	if e.Cfg.BgCompactMs > 0 && sched.Active() != nil {
		o.BackgroundCompactionInterval = time.Duration(e.Cfg.BgCompactMs) * time.Millisecond
	}
	pogreb.VerifSetLimits(o, e.Cfg.MaxSeg, e.Cfg.CompMinSeg, e.Cfg.CompFrag)
	return o
}

// Open opens the database; reports whether recovery ran (seen at the logger seam).
func (e *Env) Open() error {
	e.LogBuf.Reset()
	calls := e.seedCalls
	db, err := pogreb.Open(dbDir, e.Options())
	if err != nil {
		return err
	}
	e.DB = db
	e.lastOpenRecovered = strings.Contains(e.LogBuf.String(), "started recovery")
	if e.lastOpenRecovered {
		e.Recoveries++
	}
	if e.seedCalls == calls {
		// the seed was read from db.pmt
		if s, ok := readDBSeed(e.FS.FileBytes(dbDir + "/db.pmt")); ok {
			e.curSeed, e.haveSeed = s, true
		} else {
			e.haveSeed = false
		}
	}
	return nil
}

func readDBSeed(raw []byte) (uint32, bool) {
	if len(raw) <= 512 {
		return 0, false
	}
	var m struct{ HashSeed uint32 }
	if err := gob.NewDecoder(bytes.NewReader(raw[512:])).Decode(&m); err != nil {
		return 0, false
	}
	return m.HashSeed, true
}

func (e *Env) key(i int) []byte { return e.Keys[i%len(e.Keys)] }

func scribble(b []byte) {
	for i := range b {
		b[i] ^= 0xA5
	}
}

func (e *Env) retain(b []byte, what string) {
	limit := e.RetainCap
	if limit == 0 {
		limit = 64
	}
	// an empty slice is the caller's too: what matters is the memory up to its capacity
	if e.NoRetain || cap(b) == 0 || len(e.retained) >= limit {
		return
	}
	e.Probes["slices_retained"]++
	e.retained = append(e.retained, retained{live: b, snap: append([]byte(nil), b...), what: what})
}

// CheckRetained verifies that every slice the database handed out is still what it was (C14).
func (e *Env) CheckRetained(when string) *Violation {
	for _, r := range e.retained {
		if !bytes.Equal(r.live, r.snap) {
			return violf("returned-slice-changed", "slice returned by %s changed %s: was %s now %s", r.what, when, clip(r.snap), clip(r.live))
		}
		if e.FS.Overlaps(r.live[:cap(r.live)]) {
			return violf("returned-slice-aliases-file", "slice returned by %s (len %d, cap %d) points into a file buffer (%s)", r.what, len(r.live), cap(r.live), when)
		}
	}
	return nil
}

func eqNil(a, b []byte) bool {
	return (a == nil) == (b == nil) && bytes.Equal(a, b)
}

// Do executes one operation against the database and the model and compares (strict, fault-free
// oracle). Any API error is a violation.
func (e *Env) Do(op Op) *Violation {
	e.nAPI++
	e.FS.SetAPI(0, e.nAPI)
	if e.OnAPI != nil {
		e.OnAPI(e.nAPI, op)
	}
	switch op.K {
	case "put", "del", "iofail", "syncfail", "closefail":
	case "sync", "close":
		// a sync / meta fault armed by the marker right before stays armed
	default:
		e.FS.DisarmWriteFault() // a fault is meant for the operation that follows its marker
	}
	e.LastWriteFailed = false
	defer func() {
		if op.K == "put" || op.K == "del" || op.K == "sync" || op.K == "close" {
			e.FS.DisarmWriteFault()
		}
	}()
	switch op.K {
	case "open":
		if err := e.Open(); err != nil {
			return violf("open-failed", "Open: %v", err)
		}
	case "close":
		fired := e.FS.FaultsFired
		if err := e.DB.Close(); err != nil {
			if e.FS.FaultsFired > fired {
				// the injected write error made Close fail: the session did not complete Close. The process
				// dies; the next Open must recover and find everything that was acknowledged.
				e.Probes["close_failed_by_injected_error"]++
				e.FS.Crash()
				e.DB = nil
				e.UncleanClose = true
				return nil
			}
			return violf("api-error", "Close: %v", err)
		}
		e.DB = nil
		if v := e.CheckRetained("after Close"); v != nil {
			return v
		}
	case "put":
		k := append([]byte(nil), e.key(op.Key)...)
		val := MakeValue(0, op.ID, op.Size)
		arg := append([]byte(nil), val...)
		fired := e.FS.FaultsFired
		err := e.DB.Put(k, arg)
		scribble(k)
		scribble(arg)
		if err != nil && e.FS.FaultsFired > fired {
			// the injected short write made this Put fail: it must have had no effect or its whole effect
			return e.resolveFailedWrite(op, mval{true, val})
		}
		if err != nil {
			return violf("api-error", "Put(%s,%dB): %v", clip(e.key(op.Key)), op.Size, err)
		}
		e.Model.Put(e.key(op.Key), val)
	case "del":
		k := append([]byte(nil), e.key(op.Key)...)
		fired := e.FS.FaultsFired
		err := e.DB.Delete(k)
		scribble(k)
		if err != nil && e.FS.FaultsFired > fired {
			return e.resolveFailedWrite(op, mval{})
		}
		if err != nil {
			return violf("api-error", "Delete(%s): %v", clip(e.key(op.Key)), err)
		}
		e.Model.Delete(e.key(op.Key))
	case "get":
		k := append([]byte(nil), e.key(op.Key)...)
		got, err := e.DB.Get(k)
		scribble(k)
		if err != nil {
			return violf("api-error", "Get(%s): %v", clip(e.key(op.Key)), err)
		}
		want, _ := e.Model.Get(e.key(op.Key))
		if !eqNil(got, want) {
			return violf("get-mismatch", "Get(%s) = %s, model has %s", clip(e.key(op.Key)), showVal(got), showVal(want))
		}
		e.retain(got, "Get")
	case "geta":
		k := append([]byte(nil), e.key(op.Key)...)
		buf := make([]byte, op.Size, op.Size+8)
		for i := range buf {
			buf[i] = byte(0x40 + i%26)
		}
		pre := append([]byte(nil), buf...)
		got, err := e.DB.GetAppend(k, buf)
		scribble(k)
		if err != nil {
			return violf("api-error", "GetAppend(%s): %v", clip(e.key(op.Key)), err)
		}
		want, ok := e.Model.Get(e.key(op.Key))
		if !ok {
			if got != nil {
				return violf("getappend-mismatch", "GetAppend(%s) = %s for a missing key, want nil", clip(e.key(op.Key)), showVal(got))
			}
		} else {
			exp := append(append([]byte(nil), pre...), want...)
			if !bytes.Equal(got, exp) || (got == nil && len(exp) > 0) {
				return violf("getappend-mismatch", "GetAppend(%s, %dB prefix) = %s, want prefix+%s", clip(e.key(op.Key)), op.Size, showVal(got), showVal(want))
			}
		}
		if !bytes.Equal(buf, pre) {
			return violf("getappend-mismatch", "GetAppend modified the caller's buffer prefix")
		}
		e.retain(got, "GetAppend")
	case "has":
		k := append([]byte(nil), e.key(op.Key)...)
		got, err := e.DB.Has(k)
		scribble(k)
		if err != nil {
			return violf("api-error", "Has(%s): %v", clip(e.key(op.Key)), err)
		}
		_, want := e.Model.Get(e.key(op.Key))
		if got != want {
			return violf("has-mismatch", "Has(%s) = %v, model says %v", clip(e.key(op.Key)), got, want)
		}
	case "count":
		if got := int(e.DB.Count()); got != len(e.Model.M) {
			return violf("count-mismatch", "Count() = %d, model has %d keys", got, len(e.Model.M))
		}
	case "items":
		return e.CheckScan()
	case "delbucket":
		// every key of ONE bucket of a chain that has buckets behind it is deleted, nothing else in between
		// (looked up in the index files at run time; op.ID picks the bucket): an emptied bucket in the middle
		// of a chain must not cut off what follows it
		chains := IndexChains(FilesOf(e.FS), dbDir)
		var cands [][]string
		for _, ch := range chains {
			for bi := 0; bi+1 < len(ch); bi++ {
				if len(ch[bi]) > 0 {
					cands = append(cands, ch[bi])
				}
			}
		}
		if len(cands) == 0 {
			return nil
		}
		idx := map[string]int{}
		for i, k := range e.Keys {
			idx[string(k)] = i
		}
		for _, k := range cands[op.ID%len(cands)] {
			ki, ok := idx[k]
			if !ok {
				continue
			}
			if v := e.Do(Op{K: "del", Key: ki}); v != nil {
				return v
			}
		}
		e.Probes["bucket_with_successors_emptied"]++
	case "itemsc":
		// a scan that is paused after op.Size items while Compact runs (same goroutine), then drained:
		// nothing was written meanwhile, so it must still return exactly the model
		return e.checkScanAcross(op.Size, func() *Violation {
			cr, err := e.DB.Compact()
			if err != nil && !e.IOFaultSeen {
				return violf("api-error", "Compact: %v", err)
			}
			if cr.CompactedSegments > 0 {
				e.Probes["compacted_segments"] += cr.CompactedSegments
				e.Probes["compaction_inside_scan"]++
			}
			return nil
		})
	case "sync":
		fired := e.FS.FaultsFired
		if err := e.DB.Sync(); err != nil {
			if e.FS.FaultsFired > fired {
				// the injected fsync error: this Sync is not a sync point; the next successful one must be
				e.Probes["sync_failed_by_injected_error"]++
				e.LastWriteFailed = true
				return nil
			}
			return violf("api-error", "Sync: %v", err)
		}
	case "compact":
		cr, err := e.DB.Compact()
		if err != nil && e.IOFaultSeen {
			e.Probes["compact_failed_after_io_error"]++
			return nil
		}
		if err != nil {
			return violf("api-error", "Compact: %v", err)
		}
		if cr.CompactedSegments > 0 {
			e.Probes["compacted_segments"] += cr.CompactedSegments
		}
		if v := e.CheckRetained("after Compact"); v != nil {
			return v
		}
	case "syncfail":
		// fault marker: the next fsync of a segment file fails (EIO)
		e.FS.ArmSyncFault()
		e.Probes["sync_fault_armed"]++
	case "closefail":
		// fault marker: the op.Size-th write to a metadata file fails (ENOSPC) - meant for the Close that follows
		e.FS.ArmMetaFault(1 + op.Size%6)
		e.Probes["close_fault_armed"]++
	case "iofail":
		// fault marker: the next record append to a segment fails (ENOSPC) after op.Size%len bytes
		e.FS.ArmWriteFault(op.Size)
		e.Probes["io_fault_armed"]++
	case "filesize":
		if n, err := e.DB.FileSize(); err != nil || n <= 0 {
			return violf("api-error", "FileSize = %d, %v", n, err)
		}
	case "backup":
		dir := fmt.Sprintf("bk%d", e.nAPI)
		if err := e.DB.Backup(dir); err != nil {
			return violf("api-error", "Backup: %v", err)
		}
		if v := e.verifyBackup(dir); v != nil {
			return v
		}
	default:
		panic("unknown op " + op.K)
	}
	return nil
}

func showVal(v []byte) string {
	if v == nil {
		return "nil"
	}
	if len(v) > 20 {
		return fmt.Sprintf("%q..(%dB)", v[:20], len(v))
	}
	return fmt.Sprintf("%q", v)
}

// CheckScan runs a full Items scan and compares the multiset with the model.
func (e *Env) CheckScan() *Violation {
	it := e.DB.Items()
	seen := map[string]int{}
	n := 0
	for {
		k, v, err := it.Next()
		if err == pogreb.ErrIterationDone {
			break
		}
		if err != nil {
			return violf("api-error", "Items.Next: %v", err)
		}
		n++
		if n > len(e.Model.M)+1000 {
			return violf("scan-mismatch", "scan does not terminate: %d items for %d keys", n, len(e.Model.M))
		}
		seen[string(k)]++
		want, ok := e.Model.Get(k)
		if !ok {
			return violf("scan-mismatch", "scan returned key %s which the model does not hold", clip(k))
		}
		if !bytes.Equal(v, want) {
			return violf("scan-mismatch", "scan returned %s=%s, model has %s", clip(k), showVal(v), showVal(want))
		}
		if n <= 4 || e.RetainCap > 64 {
			e.retain(v, "Next(value)")
			e.retain(k, "Next(key)")
		}
	}
	for k, c := range seen {
		if c != 1 {
			return violf("scan-mismatch", "scan returned key %s %d times", clip([]byte(k)), c)
		}
	}
	if len(seen) != len(e.Model.M) {
		var missing []string
		for _, k := range e.Model.Keys() {
			if seen[k] == 0 {
				missing = append(missing, clip([]byte(k)))
			}
		}
		sort.Strings(missing)
		return violf("scan-mismatch", "scan returned %d keys, model has %d; missing %v", len(seen), len(e.Model.M), missing)
	}
	for i := 0; i < 2; i++ {
		if _, _, err := it.Next(); err != pogreb.ErrIterationDone {
			return violf("scan-mismatch", "Next after the end returned %v instead of ErrIterationDone", err)
		}
	}
	return nil
}

// CheckContents compares every key of the universe, Count and a full scan with the model.
func (e *Env) CheckContents() *Violation {
	for i, k := range e.Keys {
		got, err := e.DB.Get(k)
		if err != nil {
			return violf("api-error", "Get(k%d): %v", i, err)
		}
		want, ok := e.Model.Get(k)
		if !eqNil(got, want) {
			return violf("get-mismatch", "Get(k%d=%s) = %s, model has %s", i, clip(k), showVal(got), showVal(want))
		}
		has, err := e.DB.Has(k)
		if err != nil {
			return violf("api-error", "Has(k%d): %v", i, err)
		}
		if has != ok {
			return violf("has-mismatch", "Has(k%d=%s) = %v, model says %v", i, clip(k), has, ok)
		}
	}
	if got := int(e.DB.Count()); got != len(e.Model.M) {
		return violf("count-mismatch", "Count() = %d, model has %d keys", got, len(e.Model.M))
	}
	return e.CheckScan()
}

// CheckStructure walks the index on the disk bytes and replays the log with the independent
// decoder; both must agree with the model. Valid at quiescent points and after Close.
func (e *Env) CheckStructure(closed bool) *Violation {
	files := FilesOf(e.FS)
	wal, err := WalReplay(files, dbDir, !e.IOFaultSeen)
	if err != nil {
		return violf("format-decode", "independent decoder rejects the log: %v", err)
	}
	if e.WalAllowed != nil {
		for k, v := range wal {
			if _, ok := e.WalAllowed[k]; !ok {
				return violf("wal-never-written", "log replay has %s=%s, a key no task ever wrote", clip([]byte(k)), showVal(v))
			}
		}
		for k, set := range e.WalAllowed {
			got := mval{}
			if v, ok := wal[k]; ok {
				got = mval{present: true, v: v}
			}
			if !set.has(got) {
				return violf("wal-vs-allowed", "log replay has %s=%s; allowed: %v", clip([]byte(k)), got, set)
			}
		}
		// a failed write may be in the log and not in the index: the index walk is not comparable
		return nil
	}
	if len(wal) != len(e.Model.M) {
		debugSegments(files)
		return violf("wal-vs-model", "log replay yields %d keys, model has %d", len(wal), len(e.Model.M))
	}
	for k, v := range wal {
		if mv, ok := e.Model.M[k]; !ok || !bytes.Equal(mv, v) {
			return violf("wal-vs-model", "log replay has %s=%s, model has %s", clip([]byte(k)), showVal(v), showVal(mv))
		}
	}
	if !e.haveSeed {
		return nil
	}
	st, err := IndexWalk(files, dbDir, e.curSeed, len(e.Model.M), closed)
	if err != nil {
		return violf("index-structure", "%v", err)
	}
	if st.OverflowBuckets > 0 {
		e.Probes["overflow_chain_present"]++
	}
	if st.HolesBeforeNext > 0 {
		e.Probes["hole_before_overflow"]++
	}
	if st.Split > 0 {
		e.Probes["split_pointer_mid_level"]++
	}
	return nil
}

// verifyBackup opens the backup directory as a database of its own (on a copy of its files), compares it
// with the model and removes the directory from the simulated disk.
func (e *Env) verifyBackup(dir string) *Violation {
	im := NewImage()
	for _, n := range e.FS.FileNames() {
		if strings.HasPrefix(n, dir+"/") {
			im.Files[dbDir+"/"+strings.TrimPrefix(n, dir+"/")] = &FileState{Durable: append([]byte(nil), e.FS.FileBytes(n)...)}
		}
	}
	im.Dirs[dbDir] = true
	e.FS.RemoveTree(dir)
	b := NewEnv(e.Cfg, e.Keys, im, false)
	b.NoRetain = true
	defer func() {
		e.InstallSeedSource()
		pogreb.SetLogger(log.New(e.LogBuf, "", 0))
	}()
	if err := b.Open(); err != nil {
		return violf("backup-does-not-open", "Open(backup): %v", err)
	}
	b.Model = e.Model
	if v := b.CheckContents(); v != nil {
		v.Class = "backup-" + v.Class
		return v
	}
	if err := b.DB.Close(); err != nil {
		return violf("backup-does-not-close", "Close(backup): %v", err)
	}
	e.Probes["backup_verified"]++
	return nil
}

func debugSegments(files map[string][]byte) {
	if os.Getenv("VERIF_DEBUG") == "" {
		return
	}
	segs, _ := ListSegments(files, dbDir)
	for _, sn := range segs {
		recs, vl, why := DecodeSegment(files[sn.Path])
		fmt.Printf("DEBUG segment %+v len=%d valid=%d %s\n", sn, len(files[sn.Path]), vl, why)
		for _, r := range recs {
			fmt.Printf("DEBUG    off=%d del=%v key=%x vlen=%d\n", r.Off, r.Delete, r.Key, len(r.Value))
		}
	}
	for n, b := range files {
		if strings.HasSuffix(n, ".pmt") {
			fmt.Printf("DEBUG meta %s %d bytes\n", n, len(b))
		}
	}
}

// resolveFailedWrite: a Put/Delete failed because of the injected I/O error. The write was not
// acknowledged; it may have taken effect completely or not at all - never partially. The key is
// read back, must hold the old or the new value, and the model follows what is there.
func (e *Env) resolveFailedWrite(op Op, nv mval) *Violation {
	e.Probes["write_failed_by_injected_error"]++
	e.LastWriteFailed = true
	e.IOFaultSeen = true
	k := e.key(op.Key)
	got, err := e.DB.Get(k)
	if err != nil {
		return violf("api-error-after-io-error", "Get(%s) after a write that failed with the injected I/O error: %v", clip(k), err)
	}
	old, ok := e.Model.Get(k)
	gv := mval{got != nil, got}
	switch {
	case gv.eq(mval{ok, old}):
	case gv.eq(nv):
		if nv.present {
			e.Model.Put(k, nv.v)
		} else {
			e.Model.Delete(k)
		}
		e.LastFailedWriteApplied = true
	default:
		return violf("failed-write-partially-applied", "after %s failed with the injected I/O error the key reads %s: neither the old value %s nor the new one %s", op, gv, mval{ok, old}, nv)
	}
	if int(e.DB.Count()) != len(e.Model.M) {
		return violf("count-mismatch", "after %s failed with the injected I/O error Count() = %d, %d keys are there", op, e.DB.Count(), len(e.Model.M))
	}
	return nil
}

// checkScanAcross: like CheckScan, with `mid` executed after the first n items were returned.
func (e *Env) checkScanAcross(n int, mid func() *Violation) *Violation {
	it := e.DB.Items()
	seen := map[string]int{}
	cnt := 0
	ran := false
	for {
		if cnt >= n && !ran {
			ran = true
			if v := mid(); v != nil {
				return v
			}
		}
		k, v, err := it.Next()
		if err == pogreb.ErrIterationDone {
			break
		}
		if err != nil {
			return violf("api-error", "Items.Next: %v", err)
		}
		cnt++
		if cnt > len(e.Model.M)+1000 {
			return violf("scan-mismatch", "scan does not terminate")
		}
		seen[string(k)]++
		want, ok := e.Model.Get(k)
		if !ok || !bytes.Equal(v, want) {
			return violf("scan-mismatch", "scan paused across a compaction returned %s=%s, model has %s", clip(k), showVal(v), showVal(want))
		}
		e.retain(v, "Next(value)")
		e.retain(k, "Next(key)")
	}
	if !ran {
		if v := mid(); v != nil {
			return v
		}
	}
	for k, c := range seen {
		if c != 1 {
			return violf("scan-mismatch", "scan returned key %s %d times", clip([]byte(k)), c)
		}
	}
	if len(seen) != len(e.Model.M) {
		return violf("scan-mismatch", "scan paused across a compaction returned %d keys, model has %d", len(seen), len(e.Model.M))
	}
	return nil
}
