module verif.local/harness

go 1.25

require (
	github.com/akrylysov/pogreb v0.0.0
	github.com/anishathalye/porcupine v1.3.0
	verif.local/sim v0.0.0
)

replace github.com/akrylysov/pogreb => /repo

replace verif.local/sim => ../sim
