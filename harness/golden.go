package harness

import (
	"bytes"
	"compress/gzip"
	"encoding/base64"
	"encoding/hex"
	"encoding/json"
	"fmt"
	"io"
	"math/rand"
	"os"
	"path/filepath"
	"sort"
	"strings"
)

// ---------------------------------------------------------------------------------------------
// C18: the on-disk format stays the documented format version 2.
//
// (a) Golden images: database directories written by the PINNED build (generated once with
//     `VERIF_REPO=<worktree of the pinned commit + hook> ./check goldengen`, stored under
//     /verif/golden) are the initial durable state of the simulated disk; the current code must
//     open them - without recovery when they were cleanly closed, with recovery when they were left
//     unclean or with a torn tail - with exactly the recorded contents, and keep working on them.
// (b) Histories written by the current code: after every call the segment files must be accepted
//     record for record by the independent decoder (signature, version 2, record layout, CRC,
//     names) and replay to the model; the index files walk under the documented bucket layout.

type GoldenImage struct {
	Name     string            `json:"name"`
	Writer   string            `json:"writer"` // commit of the build that wrote it
	Clean    bool              `json:"clean"`
	Note     string            `json:"note"`
	Cfg      Cfg               `json:"cfg"`
	Keys     []string          `json:"keys_hex"`
	Files    map[string]string `json:"files_b64"` // path relative to the database directory
	Contents map[string]string `json:"contents_hex"`
	Features []string          `json:"features"`
}

func (g *GoldenImage) image() *Image {
	im := NewImage()
	im.Dirs[dbDir] = true
	for n, b := range g.Files {
		raw, err := base64.StdEncoding.DecodeString(b)
		if err != nil {
			panic(err)
		}
		im.Files[dbDir+"/"+n] = &FileState{Durable: raw}
	}
	return im
}

func (g *GoldenImage) keyBytes() [][]byte {
	var ks [][]byte
	for _, h := range g.Keys {
		b, _ := hex.DecodeString(h)
		ks = append(ks, b)
	}
	return ks
}

func (g *GoldenImage) model() *Model {
	m := NewModel()
	for k, v := range g.Contents {
		kb, _ := hex.DecodeString(k)
		vb, _ := hex.DecodeString(v)
		m.M[string(kb)] = vb
	}
	return m
}

func goldenDir() string {
	if d := os.Getenv("VERIF_GOLDEN"); d != "" {
		return d
	}
	return "/verif/golden"
}

var goldenCache []*GoldenImage

func loadGolden() []*GoldenImage {
	if goldenCache != nil {
		return goldenCache
	}
	names, _ := filepath.Glob(filepath.Join(goldenDir(), "*.json.gz"))
	sort.Strings(names)
	for _, n := range names {
		f, err := os.Open(n)
		if err != nil {
			panic(err)
		}
		zr, err := gzip.NewReader(f)
		if err != nil {
			panic(fmt.Sprintf("%s: %v", n, err))
		}
		raw, err := io.ReadAll(zr)
		f.Close()
		if err != nil {
			panic(fmt.Sprintf("%s: %v", n, err))
		}
		var g GoldenImage
		if err := json.Unmarshal(raw, &g); err != nil {
			panic(fmt.Sprintf("%s: %v", n, err))
		}
		goldenCache = append(goldenCache, &g)
	}
	return goldenCache
}

func snapshotFiles(fs *SimFS) map[string]string {
	m := map[string]string{}
	for _, n := range fs.FileNames() {
		if strings.HasPrefix(n, dbDir+"/") {
			m[strings.TrimPrefix(n, dbDir+"/")] = base64.StdEncoding.EncodeToString(fs.FileBytes(n))
		}
	}
	return m
}

func modelHex(m *Model) map[string]string {
	out := map[string]string{}
	for k, v := range m.M {
		out[hex.EncodeToString([]byte(k))] = hex.EncodeToString(v)
	}
	return out
}

// GenerateGolden runs seeded histories with whatever build the binary was linked against (meant: the
// pinned commit) on the simulated disk and writes one file per image. A history on which the writer
// itself disagrees with the reference map is skipped (the pinned build has known defects).
func GenerateGolden(outDir, writer string, n int) (written, skipped int, err error) {
	if err := os.MkdirAll(outDir, 0755); err != nil {
		return 0, 0, err
	}
	for h := 0; written < n && h < n*20; h++ {
		rng := rand.New(rand.NewSource(int64(0x60 + h)))
		cfg := GenCfg(rng)
		cfg.Alias, cfg.Poison, cfg.ShortReads, cfg.PermuteDir = false, false, false, false
		cfg.FreshSeeds = false
		// shapes, round robin: overflow chains, index growth, rollover+compaction, deletes, large values
		shape := h % 6
		switch shape {
		case 0: // one long bucket chain
			cfg.Family, cfg.NKeys, cfg.MaxSeg = int(KFLowBits), 40+rng.Intn(50), 8192
		case 1: // identical 32-bit hashes
			cfg.Family, cfg.NKeys, cfg.MaxSeg = int(KFFull32), 8+rng.Intn(24), 4096
		case 2: // many keys: several index splits
			cfg.Family, cfg.NKeys, cfg.MaxSeg = int(KFMixed), 64, 4096
		case 3: // rollover and compaction with tiny segments
			cfg.Family, cfg.NKeys, cfg.MaxSeg, cfg.CompMinSeg, cfg.CompFrag = int(KFTiny), 12, 700, 1, 0.1
		case 4: // key/value length boundaries
			cfg.Family, cfg.NKeys, cfg.MaxSeg = int(KFLengths), 6, 65536
		case 5:
			cfg.Family, cfg.NKeys = int(KFTiny), 24
		}
		keys := GenKeys(rng, KeyFamily(cfg.Family), cfg.NKeys, cfg.HashSeed)
		cfg.NKeys = len(keys)
		w := map[string]int{"put": 50, "del": 14, "get": 3, "geta": 1, "has": 1, "count": 1, "items": 1, "sync": 2, "compact": 4, "close": 3, "filesize": 0}
		g := GenOpts{MinOps: 30, MaxOps: 220, Weights: w, Sessions: true}
		if shape == 4 {
			g.Sizes = []int{0, 1, 60, 506, 512, 4090}
			g.MinOps, g.MaxOps = 8, 16
		}
		id := 0
		ops := GenSeqOps(rng, cfg, g, &id)
		e := NewEnv(cfg, keys, nil, false)
		e.NoRetain = true
		if err := e.Open(); err != nil {
			return written, skipped, fmt.Errorf("history %d: Open: %v", h, err)
		}
		open := true
		bad := ""
		// an unclean image is taken at a random position while the database is open
		uncleanAt := rng.Intn(len(ops))
		var unclean *GoldenImage
		mk := func(name string, clean bool, note string) *GoldenImage {
			gi := &GoldenImage{Name: name, Writer: writer, Clean: clean, Note: note, Cfg: cfg, Files: snapshotFiles(e.FS), Contents: modelHex(e.Model)}
			for _, k := range keys {
				gi.Keys = append(gi.Keys, hex.EncodeToString(k))
			}
			for _, pr := range []string{"index_split", "overflow_bucket_allocated", "segment_removed", "compacted_segments", "clean_reopen"} {
				if e.Probes[pr] > 0 {
					gi.Features = append(gi.Features, pr)
				}
			}
			if e.Probes["segment_created"] > 1 {
				gi.Features = append(gi.Features, "rollover")
			}
			return gi
		}
		for i, op := range ops {
			if !open && op.K != "open" {
				continue
			}
			if open && op.K == "open" {
				continue
			}
			if v := e.Do(op); v != nil {
				bad = fmt.Sprintf("op#%d %s: %s", i, op, v.Error())
				break
			}
			switch op.K {
			case "close":
				open = false
			case "open":
				open = true
				e.Probes["clean_reopen"]++
			}
			if open && i >= uncleanAt && unclean == nil {
				if v := e.CheckContents(); v != nil {
					bad = v.Error()
					break
				}
				if v := e.CheckStructure(false); v != nil {
					bad = v.Error() // the writer's log does not replay to its contents (a defect of the pinned build)
					break
				}
				unclean = mk(fmt.Sprintf("g%03d-unclean", h), false, "copied while the database was open (lock file present, index possibly stale)")
				// a torn tail: the first bytes of a well-formed record appended to the newest segment
				files := ImageFiles(unclean.image())
				segs, _ := ListSegments(files, dbDir)
				if len(segs) > 0 && rng.Intn(2) == 0 {
					newest := segs[len(segs)-1]
					rec := make([]byte, 0, 64)
					key := []byte("torn-key")
					val := bytes.Repeat([]byte{0x5a}, 20+rng.Intn(600))
					rec = append(rec, byte(len(key)), 0, byte(len(val)), byte(len(val)>>8), 0, 0)
					rec = append(rec, key...)
					rec = append(rec, val...)
					rec = append(rec, 1, 2, 3, 4)
					cut := 1 + rng.Intn(len(rec)-1)
					data := append(append([]byte(nil), files[newest.Path]...), rec[:cut]...)
					unclean.Files[strings.TrimPrefix(newest.Path, dbDir+"/")] = base64.StdEncoding.EncodeToString(data)
					unclean.Note += fmt.Sprintf("; %d bytes of a torn record appended to %s", cut, filepath.Base(newest.Path))
					unclean.Features = append(unclean.Features, "torn_tail")
				}
			}
		}
		if bad == "" && open {
			if v := e.CheckContents(); v != nil {
				bad = v.Error()
			} else if err := e.DB.Close(); err != nil {
				bad = err.Error()
			}
		}
		if bad == "" {
			if v := e.CheckStructure(true); v != nil {
				bad = v.Error()
			}
		}
		if bad != "" {
			skipped++
			fmt.Printf("goldengen: history %d skipped (the writer disagrees with the reference map: %s)\n", h, bad)
			if e.DB != nil && open {
				e.DB.Close()
			}
			continue
		}
		clean := mk(fmt.Sprintf("g%03d-clean", h), true, "cleanly closed")
		for _, gi := range []*GoldenImage{clean, unclean} {
			if gi == nil {
				continue
			}
			raw, _ := json.Marshal(gi)
			var buf bytes.Buffer
			zw, _ := gzip.NewWriterLevel(&buf, gzip.BestCompression)
			zw.Write(raw)
			zw.Close()
			if err := os.WriteFile(filepath.Join(outDir, gi.Name+".json.gz"), buf.Bytes(), 0644); err != nil {
				return written, skipped, err
			}
		}
		written++
	}
	return written, skipped, nil
}

// ---------------------------------------------------------------------------------------------

type goldenEngine struct{}

func (goldenEngine) Generate(rng *rand.Rand, prop string, thorough bool) *Plan {
	gs := loadGolden()
	if len(gs) == 0 {
		panic("no golden images under " + goldenDir())
	}
	gi := rng.Intn(len(gs))
	g := gs[gi]
	cfg := g.Cfg
	// the reader's configuration is its own: personalities, thresholds and sync mode vary
	r := GenCfg(rng)
	cfg.Alias, cfg.Poison, cfg.ShortReads, cfg.PermuteDir, cfg.FSSeed, cfg.SyncMode = r.Alias, r.Poison, r.ShortReads, r.PermuteDir, r.FSSeed, r.SyncMode
	if rng.Intn(2) == 0 {
		cfg.MaxSeg, cfg.CompMinSeg, cfg.CompFrag = r.MaxSeg, r.CompMinSeg, r.CompFrag
	}
	cfg.FreshSeeds = rng.Intn(2) == 0 // a recovery re-seeds the index
	p := &Plan{Property: prop, Engine: "golden", Cfg: cfg, Keys: g.Keys}
	p.Golden = g.Name
	w := map[string]int{"put": 40, "del": 15, "get": 10, "geta": 3, "has": 3, "count": 2, "items": 2, "sync": 2, "compact": 5, "close": 4, "filesize": 1}
	max := 60
	if thorough {
		max = 150
	}
	sizes := valueSizeClasses
	if KeyFamily(cfg.Family) != KFLengths {
		sizes = []int{0, 1, 12, 16, 60, 200, 506, 512}
	}
	id := 1 << 20 // values distinct from the writer's
	p.Tasks = [][]Op{GenSeqOps(rng, cfg, GenOpts{MinOps: 0, MaxOps: max, Weights: w, Sessions: true, Sizes: sizes}, &id)}
	return p
}

func (goldenEngine) Execute(p *Plan) *RunResult {
	res := newResult()
	gs := loadGolden()
	var g *GoldenImage
	for _, c := range gs {
		if c.Name == p.Golden {
			g = c
		}
	}
	if g == nil {
		panic("golden image of the plan not found")
	}
	fail := func(v *Violation) *RunResult {
		v.Detail = "golden image " + g.Name + " (" + g.Note + "): " + v.Detail
		res.V = v
		return res
	}
	e := NewEnv(p.Cfg, g.keyBytes(), g.image(), false)
	defer func() { res.Probes.Add(e.Probes) }()
	e.Model = g.model()
	if os.Getenv("VERIF_DEBUG") != "" {
		prev := e.FS.OnMutate
		e.FS.OnMutate = func(j *JEntry) {
			prev(j)
			if !strings.HasSuffix(j.Name, ".pix") {
				fmt.Printf("DEBUG fs api#%d %s\n", e.nAPI, j)
			}
		}
	}
	if err := e.Open(); err != nil {
		return fail(violf("golden-open-failed", "Open: %v", err))
	}
	if g.Clean {
		res.Probes["golden_clean_opened"]++
		if e.lastOpenRecovered || e.Probes["segment_truncated"] > 0 || e.Probes["recovery_moved_file"] > 0 {
			return fail(violf("golden-clean-image-recovered", "a cleanly closed database of the pinned version was opened with recovery"))
		}
	} else {
		res.Probes["golden_unclean_opened"]++
		if !e.lastOpenRecovered {
			return fail(violf("golden-unclean-image-not-recovered", "a database of the pinned version left unclean was opened without recovery"))
		}
	}
	for _, f := range g.Features {
		res.Probes["golden_feature_"+f]++
	}
	if v := e.CheckContents(); v != nil {
		v.Class = "golden-" + v.Class
		return fail(v)
	}
	if v := e.CheckStructure(false); v != nil {
		v.Class = "golden-" + v.Class
		return fail(v)
	}
	// keep working on it
	open := true
	for i, op := range p.Tasks[0] {
		if !open && op.K != "open" {
			continue
		}
		if open && op.K == "open" {
			continue
		}
		if v := e.Do(op); v != nil {
			v.Class = "golden-then-" + v.Class
			v.Detail = fmt.Sprintf("op#%d %s on top of the image: %s", i, op, v.Detail)
			return fail(v)
		}
		switch op.K {
		case "close":
			open = false
			if v := e.CheckStructure(true); v != nil {
				v.Class = "golden-then-" + v.Class
				return fail(v)
			}
		case "open":
			open = true
			if e.lastOpenRecovered {
				return fail(violf("clean-reopen-recovered", "op#%d: Open after a clean Close ran recovery", i))
			}
			if v := e.CheckContents(); v != nil {
				v.Class = "golden-then-" + v.Class
				return fail(v)
			}
		}
	}
	if !open {
		if err := e.Open(); err != nil {
			return fail(violf("golden-open-failed", "final Open: %v", err))
		}
	}
	if v := e.CheckContents(); v != nil {
		v.Class = "golden-then-" + v.Class
		return fail(v)
	}
	if v := e.CheckStructure(false); v != nil {
		v.Class = "golden-then-" + v.Class
		return fail(v)
	}
	if err := e.DB.Close(); err != nil {
		return fail(violf("api-error", "final Close: %v", err))
	}
	res.Hashes = append(res.Hashes, fnvAdd(e.Model.Digest(), []byte(g.Name)))
	res.NonTrivial = true
	res.Sample = map[string]interface{}{"seed": p.Seed, "image": g.Name, "writer": g.Writer, "clean": g.Clean, "features": g.Features, "files": len(g.Files), "keys_in_image": len(g.Contents), "ops_on_top": len(p.Tasks[0])}
	return res
}

// ---------------------------------------------------------------------------------------------
// (b): every call of a history written by the current code followed by the format check.

type formatEngine struct{}

func (formatEngine) Generate(rng *rand.Rand, prop string, thorough bool) *Plan {
	p := seqEngine{}.Generate(rng, "C02", thorough) // sessions on
	p.Property = prop
	p.Engine = "format"
	// no injected I/O errors here: this engine looks at what a fault-free history leaves in the files
	var clean []Op
	for _, op := range p.Tasks[0] {
		if op.K != "closefail" && op.K != "iofail" && op.K != "syncfail" {
			clean = append(clean, op)
		}
	}
	p.Tasks[0] = clean
	if len(p.Tasks[0]) > 120 {
		p.Tasks[0] = p.Tasks[0][:120]
	}
	return p
}

// checkFormat: the documented container format of every database file.
func checkFormat(fs *SimFS) *Violation {
	for _, n := range fs.FileNames() {
		if !strings.HasPrefix(n, dbDir+"/") {
			continue
		}
		base := strings.TrimPrefix(n, dbDir+"/")
		data := fs.FileBytes(n)
		switch {
		case strings.HasSuffix(base, ".psg"):
			if !reSegFile.MatchString(base) {
				return violf("format-segment-name", "segment file name %q is not <5-digit id>-<sequence id>.psg", base)
			}
		case strings.HasSuffix(base, ".pix"), strings.HasSuffix(base, ".pmt"):
		case base == "lock":
			continue
		default:
			continue
		}
		if len(data) == 0 {
			continue
		}
		if len(data) < walHeaderSize {
			return violf("format-header", "file %s is %d bytes long, shorter than the 512-byte header", base, len(data))
		}
		if !bytes.Equal(data[:8], walSignature) {
			return violf("format-header", "file %s does not start with the documented signature: % x", base, data[:8])
		}
		if v := uint32(data[8]) | uint32(data[9])<<8 | uint32(data[10])<<16 | uint32(data[11])<<24; v != walVersion {
			return violf("format-header", "file %s carries format version %d, documented: %d", base, v, walVersion)
		}
		if strings.HasSuffix(base, ".pix") && (len(data)-walHeaderSize)%512 != 0 {
			return violf("format-index", "index file %s is not a header plus a whole number of 512-byte buckets (%d bytes)", base, len(data))
		}
	}
	return nil
}

func (formatEngine) Execute(p *Plan) *RunResult {
	res := newResult()
	e := NewEnv(p.Cfg, p.KeyBytes(), nil, false)
	e.NoRetain = true
	defer func() { res.Probes.Add(e.Probes) }()
	fail := func(v *Violation) *RunResult { res.V = v; return res }
	if err := e.Open(); err != nil {
		return fail(violf("open-failed", "first Open: %v", err))
	}
	open := true
	n := 0
	for i, op := range p.Tasks[0] {
		if !open && op.K != "open" {
			continue
		}
		if open && op.K == "open" {
			continue
		}
		if v := e.Do(op); v != nil {
			v.Detail = fmt.Sprintf("op#%d %s: %s", i, op, v.Detail)
			return fail(v)
		}
		switch op.K {
		case "close":
			open = false
		case "open":
			open = true
		}
		if v := checkFormat(e.FS); v != nil {
			v.Detail = fmt.Sprintf("after op#%d %s: %s", i, op, v.Detail)
			return fail(v)
		}
		switch op.K {
		case "put", "del", "compact", "close", "open", "sync":
			if v := e.CheckStructure(!open); v != nil {
				v.Detail = fmt.Sprintf("after op#%d %s: %s", i, op, v.Detail)
				return fail(v)
			}
			n++
			res.Hashes = append(res.Hashes, e.Model.Digest()^segmentDigest(e.FS))
		}
	}
	if open {
		if err := e.DB.Close(); err != nil {
			return fail(violf("api-error", "final Close: %v", err))
		}
	}
	if v := checkFormat(e.FS); v != nil {
		return fail(v)
	}
	if v := e.CheckStructure(true); v != nil {
		return fail(v)
	}
	res.Evaluations = n + 1
	res.Probes["format_checks"] += n + 1
	res.NonTrivial = e.Probes["segment_created"] > 1 || e.Probes["index_split"] > 0
	return res
}
