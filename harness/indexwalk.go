package harness

import (
	"bytes"
	"encoding/binary"
	"encoding/gob"
	"fmt"
	"math/bits"
)

// IndexWalk is a structural check of the on-disk hash index against the documented layout:
// 512-byte header; buckets of 31 slots x 16 bytes (hash u32, segment id u16, key size u16,
// value size u32, offset u32) followed by an 8-byte offset of the next overflow bucket.

type IndexStats struct {
	Buckets         int
	Slots           int
	OverflowBuckets int // linked
	MaxChain        int
	HolesBeforeNext int // buckets with free slots that still have a successor
	Level           int
	Split           int
}

type idxSlot struct {
	hash  uint32
	seg   uint16
	ksize uint16
	vsize uint32
	off   uint32
}

type idxMeta struct {
	Level               uint8
	NumKeys             uint32
	NumBuckets          uint32
	SplitBucketIndex    uint32
	FreeOverflowBuckets []int64
}

func readBucket(b []byte) (slots []idxSlot, next int64) {
	for i := 0; i < 31; i++ {
		s := b[i*16:]
		sl := idxSlot{
			hash:  binary.LittleEndian.Uint32(s[0:4]),
			seg:   binary.LittleEndian.Uint16(s[4:6]),
			ksize: binary.LittleEndian.Uint16(s[6:8]),
			vsize: binary.LittleEndian.Uint32(s[8:12]),
			off:   binary.LittleEndian.Uint32(s[12:16]),
		}
		if sl.off == 0 {
			break
		}
		slots = append(slots, sl)
	}
	next = int64(binary.LittleEndian.Uint64(b[31*16:]))
	return
}

// IndexWalk checks the index files of dir. seed is the hash seed of the database; count is what
// Count() reports. closed: the database has been closed cleanly, so index.pmt and db.pmt must exist
// and agree with the walk.
func IndexWalk(files map[string][]byte, dir string, seed uint32, count int, closed bool) (IndexStats, error) {
	var st IndexStats
	p := func(n string) string {
		if dir == "." || dir == "" {
			return n
		}
		return dir + "/" + n
	}
	main := files[p("main.pix")]
	ovf := files[p("overflow.pix")]
	if len(main) < 1024 || (len(main)-512)%512 != 0 {
		return st, fmt.Errorf("main.pix has length %d", len(main))
	}
	if len(ovf) < 512 || (len(ovf)-512)%512 != 0 {
		return st, fmt.Errorf("overflow.pix has length %d", len(ovf))
	}
	for _, f := range [][]byte{main, ovf} {
		if !bytes.Equal(f[:8], walSignature) || binary.LittleEndian.Uint32(f[8:12]) != walVersion {
			return st, fmt.Errorf("index file header is not signature+version 2")
		}
	}
	nb := (len(main) - 512) / 512
	level := bits.Len(uint(nb)) - 1
	split := nb - 1<<uint(level)
	st.Buckets, st.Level, st.Split = nb, level, split
	bucketIndex := func(h uint32) int {
		b := int(h & (1<<uint(level) - 1))
		if b < split {
			return int(h & (1<<uint(level+1) - 1))
		}
		return b
	}
	segs, err := ListSegments(files, dirOrDot(dir))
	if err != nil {
		return st, err
	}
	segByID := map[int][]byte{}
	for _, sn := range segs {
		if _, dup := segByID[sn.ID]; dup {
			return st, fmt.Errorf("two segment files with id %d", sn.ID)
		}
		segByID[sn.ID] = files[sn.Path]
	}
	linked := map[int64]bool{}
	keys := map[string]bool{}
	for bi := 0; bi < nb; bi++ {
		off := int64(512 + 512*bi)
		f := main
		chain := 0
		for {
			if off+512 > int64(len(f)) {
				return st, fmt.Errorf("bucket %d: chain points past the end of the file (offset %d)", bi, off)
			}
			slots, next := readBucket(f[off : off+512])
			chain++
			for _, sl := range slots {
				st.Slots++
				if got := bucketIndex(sl.hash); got != bi {
					return st, fmt.Errorf("slot with hash %#x sits in the chain of bucket %d but maps to bucket %d (level %d split %d)", sl.hash, bi, got, level, split)
				}
				seg, ok := segByID[int(sl.seg)]
				if !ok {
					return st, fmt.Errorf("slot in bucket %d points at missing segment %d", bi, sl.seg)
				}
				end := int64(sl.off) + 6 + int64(sl.ksize) + int64(sl.vsize) + 4
				if int64(sl.off) < 512 || end > int64(len(seg)) {
					return st, fmt.Errorf("slot in bucket %d points outside segment %d (off %d, end %d, len %d)", bi, sl.seg, sl.off, end, len(seg))
				}
				rec := seg[sl.off:end]
				kl := binary.LittleEndian.Uint16(rec[:2])
				vraw := binary.LittleEndian.Uint32(rec[2:6])
				if kl != sl.ksize || vraw != sl.vsize {
					return st, fmt.Errorf("slot in bucket %d (seg %d off %d): sizes %d/%d do not match the record header %d/%#x", bi, sl.seg, sl.off, sl.ksize, sl.vsize, kl, vraw)
				}
				key := rec[6 : 6+int(kl)]
				if murmur3(key, seed) != sl.hash {
					return st, fmt.Errorf("slot in bucket %d: stored hash %#x is not the hash of the key it points at", bi, sl.hash)
				}
				if keys[string(key)] {
					return st, fmt.Errorf("key %q has two slots in the index", clip(key))
				}
				keys[string(key)] = true
			}
			if next == 0 {
				break
			}
			if len(slots) < 31 {
				st.HolesBeforeNext++
			}
			if linked[next] {
				return st, fmt.Errorf("overflow bucket at %d is linked twice (cycle or shared chain)", next)
			}
			if next < 512 || (next-512)%512 != 0 {
				return st, fmt.Errorf("bucket %d: bad overflow offset %d", bi, next)
			}
			linked[next] = true
			st.OverflowBuckets++
			f = ovf
			off = next
		}
		if chain > st.MaxChain {
			st.MaxChain = chain
		}
	}
	if count >= 0 && st.Slots != count {
		return st, fmt.Errorf("index holds %d slots but Count() is %d", st.Slots, count)
	}
	if closed {
		raw := files[p("index.pmt")]
		if len(raw) <= 512 {
			return st, fmt.Errorf("index.pmt missing or empty after Close")
		}
		var m idxMeta
		if err := gob.NewDecoder(bytes.NewReader(raw[512:])).Decode(&m); err != nil {
			return st, fmt.Errorf("index.pmt: %v", err)
		}
		if int(m.Level) != level || int(m.SplitBucketIndex) != split || int(m.NumBuckets) != nb || int(m.NumKeys) != st.Slots {
			return st, fmt.Errorf("index.pmt says level=%d split=%d buckets=%d keys=%d, the files say level=%d split=%d buckets=%d keys=%d", m.Level, m.SplitBucketIndex, m.NumBuckets, m.NumKeys, level, split, nb, st.Slots)
		}
		free := map[int64]bool{}
		for _, o := range m.FreeOverflowBuckets {
			if free[o] {
				return st, fmt.Errorf("overflow bucket %d is on the free list twice", o)
			}
			if linked[o] {
				return st, fmt.Errorf("overflow bucket %d is both linked and on the free list", o)
			}
			if o < 512 || (o-512)%512 != 0 || o+512 > int64(len(ovf)) {
				return st, fmt.Errorf("free list holds bad offset %d", o)
			}
			free[o] = true
		}
		total := (len(ovf) - 512) / 512
		if len(free)+len(linked) != total {
			return st, fmt.Errorf("overflow.pix has %d buckets, %d linked + %d free: %d leaked", total, len(linked), len(free), total-len(free)-len(linked))
		}
	}
	return st, nil
}

// IndexChains returns, for every bucket chain of the index, the keys held by each of its buckets (main bucket
// first, then the overflow buckets in link order). Lenient: anything it cannot read ends the chain.
func IndexChains(files map[string][]byte, dir string) [][][]string {
	p := func(n string) string {
		if dir == "." || dir == "" {
			return n
		}
		return dir + "/" + n
	}
	main := files[p("main.pix")]
	ovf := files[p("overflow.pix")]
	if len(main) < 1024 {
		return nil
	}
	segs, err := ListSegments(files, dirOrDot(dir))
	if err != nil {
		return nil
	}
	segByID := map[int][]byte{}
	for _, sn := range segs {
		segByID[sn.ID] = files[sn.Path]
	}
	var chains [][][]string
	nb := (len(main) - 512) / 512
	for bi := 0; bi < nb; bi++ {
		off := int64(512 + 512*bi)
		f := main
		var chain [][]string
		for hops := 0; hops < 1000 && off >= 512 && off+512 <= int64(len(f)); hops++ {
			slots, next := readBucket(f[off : off+512])
			var ks []string
			for _, sl := range slots {
				seg := segByID[int(sl.seg)]
				end := int64(sl.off) + 6 + int64(sl.ksize)
				if int64(sl.off) < 512 || end > int64(len(seg)) {
					continue
				}
				ks = append(ks, string(seg[int64(sl.off)+6:end]))
			}
			chain = append(chain, ks)
			if next == 0 {
				break
			}
			f, off = ovf, next
		}
		chains = append(chains, chain)
	}
	return chains
}

func dirOrDot(d string) string {
	if d == "" {
		return "."
	}
	return d
}

func clip(b []byte) string {
	if len(b) > 24 {
		return fmt.Sprintf("%x..(%d bytes)", b[:24], len(b))
	}
	return fmt.Sprintf("%x", b)
}
