//go:build verifreal

package harness

// the uninstrumented build keeps the shipped 1 GiB initial mapping
func setInitialMmapSize(n int64) {}
