//go:build !verifreal

package harness

import "github.com/akrylysov/pogreb/fs"

// setInitialMmapSize shrinks the initial mapping of fs.OSMMap in the instrumented scratch build, so that
// the remapping path (1 GiB in the shipped code) is reached by small files.
func setInitialMmapSize(n int64) { fs.VerifSetInitialMmapSize(n) }
