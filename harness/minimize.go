package harness

import "time"

// Minimise shrinks a failing plan while the same violation class persists: ddmin over the
// operations of every task/epoch, then the schedule tape (choices -> 0 from the back).
func Minimise(eng Engine, p *Plan, class string, budget time.Duration) *Plan {
	deadline := time.Now().Add(budget)
	fails := func(q *Plan) bool {
		if time.Now().After(deadline) {
			return false
		}
		r := safeExecute(eng, q)
		return r.V != nil && r.V.Class == class
	}
	best := p.Clone()
	best.Faults = nil // engines sweep faults again on shrunken plans
	if !fails(best) {
		// the violation needs the pinned fault: keep faults
		best = p.Clone()
		if !fails(best) {
			return p
		}
	}
	lists := func(q *Plan) []*[]Op {
		var ls []*[]Op
		for i := range q.Tasks {
			ls = append(ls, &q.Tasks[i])
		}
		for i := range q.Epochs {
			ls = append(ls, &q.Epochs[i])
		}
		return ls
	}
	for round := 0; round < 3; round++ {
		progress := false
		for li := range lists(best) {
			n := len(*lists(best)[li])
			for chunk := n / 2; chunk >= 1; chunk /= 2 {
				for start := 0; start < len(*lists(best)[li]); {
					cand := best.Clone()
					l := lists(cand)[li]
					end := start + chunk
					if end > len(*l) {
						end = len(*l)
					}
					*l = append(append([]Op(nil), (*l)[:start]...), (*l)[end:]...)
					if fails(cand) {
						best = cand
						progress = true
					} else {
						start += chunk
					}
					if time.Now().After(deadline) {
						return best
					}
				}
			}
		}
		// tape: zero choices from the back
		if len(best.Tape) > 0 {
			cand := best.Clone()
			for len(cand.Tape) > 0 && cand.Tape[len(cand.Tape)-1] == 0 {
				cand.Tape = cand.Tape[:len(cand.Tape)-1]
			}
			for i := len(cand.Tape) - 1; i >= 0; i-- {
				if cand.Tape[i] == 0 {
					continue
				}
				old := cand.Tape[i]
				cand.Tape[i] = 0
				if fails(cand) {
					best = cand.Clone()
					progress = true
				} else {
					cand.Tape[i] = old
				}
				if time.Now().After(deadline) {
					return best
				}
			}
		}
		// shrink value sizes
		for li := range lists(best) {
			for oi := range *lists(best)[li] {
				op := (*lists(best)[li])[oi]
				if op.K == "put" && op.Size > 16 {
					cand := best.Clone()
					(*lists(cand)[li])[oi].Size = 16
					if fails(cand) {
						best = cand
						progress = true
					}
				}
			}
		}
		if !progress {
			break
		}
	}
	return best
}
