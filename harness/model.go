package harness

import (
	"bytes"
	"encoding/binary"
	"fmt"
	"math/bits"
	"math/rand"
	"sort"
	"unsafe"
)

// murmur3 is an independent implementation of MurmurHash3_x86_32 (from the reference
// description), used to aim keys at buckets and to walk the index.
func murmur3(data []byte, seed uint32) uint32 {
	const c1, c2 = 0xcc9e2d51, 0x1b873593
	h := seed
	n := len(data)
	i := 0
	for ; i+4 <= n; i += 4 {
		k := binary.LittleEndian.Uint32(data[i:])
		k *= c1
		k = bits.RotateLeft32(k, 15)
		k *= c2
		h ^= k
		h = bits.RotateLeft32(h, 13)
		h = h*5 + 0xe6546b64
	}
	var k uint32
	rem := n - i
	if rem >= 3 {
		k ^= uint32(data[i+2]) << 16
	}
	if rem >= 2 {
		k ^= uint32(data[i+1]) << 8
	}
	if rem >= 1 {
		k ^= uint32(data[i])
		k *= c1
		k = bits.RotateLeft32(k, 15)
		k *= c2
		h ^= k
	}
	h ^= uint32(n)
	h ^= h >> 16
	h *= 0x85ebca6b
	h ^= h >> 13
	h *= 0xc2b2ae35
	h ^= h >> 16
	return h
}

func sliceOverlap(a, b []byte) bool {
	if len(a) == 0 || len(b) == 0 {
		return false
	}
	a0 := uintptr(unsafe.Pointer(&a[0]))
	b0 := uintptr(unsafe.Pointer(&b[0]))
	return a0 < b0+uintptr(len(b)) && b0 < a0+uintptr(len(a))
}

// Model is the reference map.
type Model struct {
	M map[string][]byte
}

func NewModel() *Model { return &Model{M: map[string][]byte{}} }

func (m *Model) Clone() *Model {
	n := NewModel()
	for k, v := range m.M {
		n.M[k] = v
	}
	return n
}

func (m *Model) Put(k, v []byte) { m.M[string(k)] = append([]byte{}, v...) }
func (m *Model) Delete(k []byte) { delete(m.M, string(k)) }
func (m *Model) Get(k []byte) ([]byte, bool) {
	v, ok := m.M[string(k)]
	return v, ok
}

func (m *Model) Keys() []string {
	ks := make([]string, 0, len(m.M))
	for k := range m.M {
		ks = append(ks, k)
	}
	sort.Strings(ks)
	return ks
}

func (m *Model) Digest() uint64 {
	h := uint64(1469598103934665603)
	for _, k := range m.Keys() {
		h = fnvAdd(h, []byte(k))
		h = fnvAdd(h, []byte{0})
		h = fnvAdd(h, m.M[k])
		h = fnvAdd(h, []byte{1})
	}
	return h
}

// ---------------------------------------------------------------------------------------------
// Key universes.

type KeyFamily int

const (
	KFTiny KeyFamily = iota
	KFLowBits
	KFFull32
	KFLengths
	KFMixed
	numKeyFamilies
)

var keyFamilyNames = [...]string{"tiny", "lowbit-colliders", "full32-colliders", "length-boundaries", "mixed"}

// GenKeys builds a key universe of n keys for the given family under the given hash seed.
func GenKeys(rng *rand.Rand, fam KeyFamily, n int, seed uint32) [][]byte {
	var keys [][]byte
	seen := map[string]bool{}
	add := func(k []byte) bool {
		if seen[string(k)] {
			return false
		}
		seen[string(k)] = true
		keys = append(keys, k)
		return true
	}
	switch fam {
	case KFTiny:
		for len(keys) < n {
			l := rng.Intn(3)
			k := make([]byte, l)
			for i := range k {
				k[i] = byte(rng.Intn(8))
			}
			if l == 0 && n < 3 {
				k = []byte{byte(len(keys))}
			}
			if !add(k) && len(seen) >= 73 {
				break
			}
		}
	case KFLowBits:
		// all keys agree in the low L bits of the hash => one bucket chain at every level < L
		L := uint(8 + rng.Intn(8))
		target := rng.Uint32() & (1<<L - 1)
		for c := 0; len(keys) < n; c++ {
			k := []byte(fmt.Sprintf("lb%d-%d", target, c))
			if murmur3(k, seed)&(1<<L-1) == target {
				add(k)
			}
		}
	case KFFull32:
		// pairs (or more) of keys with identical 32-bit hashes, found by a birthday search
		keys = append(keys, fullColliders(rng, n, seed)...)
	case KFLengths:
		lens := []int{0, 1, 2, 255, 256, 257, 1000, 4090, 65534, 65535}
		for len(keys) < n {
			l := lens[rng.Intn(len(lens))]
			if len(keys) >= len(lens) {
				l = rng.Intn(40)
			}
			k := make([]byte, l)
			rng.Read(k)
			if l == 0 && seen[""] {
				continue
			}
			add(k)
		}
	case KFMixed:
		a := GenKeys(rng, KFLowBits, n/2+1, seed)
		b := fullColliders(rng, n/4+2, seed)
		c := GenKeys(rng, KFTiny, n/4+1, seed)
		for _, k := range append(append(a, b...), c...) {
			if len(keys) < n {
				add(k)
			}
		}
	}
	return keys
}

func fullColliders(rng *rand.Rand, n int, seed uint32) [][]byte {
	type ent struct {
		h uint32
		i uint32
	}
	const N = 1 << 18
	base := rng.Uint32()
	ents := make([]ent, N)
	var kb [12]byte
	mk := func(i uint32) []byte {
		binary.LittleEndian.PutUint32(kb[:4], base)
		binary.LittleEndian.PutUint32(kb[4:8], i)
		copy(kb[8:], "coll")
		return kb[:]
	}
	for i := uint32(0); i < N; i++ {
		ents[i] = ent{murmur3(mk(i), seed), i}
	}
	sort.Slice(ents, func(a, b int) bool {
		if ents[a].h != ents[b].h {
			return ents[a].h < ents[b].h
		}
		return ents[a].i < ents[b].i
	})
	var out [][]byte
	for i := 1; i < N && len(out) < n; i++ {
		if ents[i].h == ents[i-1].h {
			if len(out) == 0 || !bytes.Equal(out[len(out)-1], mk(ents[i-1].i)) {
				out = append(out, append([]byte(nil), mk(ents[i-1].i)...))
			}
			out = append(out, append([]byte(nil), mk(ents[i].i)...))
		}
	}
	// pad with low-bit colliders of the first hash so the colliding keys also share a chain
	for c := 0; len(out) < n; c++ {
		out = append(out, []byte(fmt.Sprintf("pad%d-%d", base, c)))
	}
	if len(out) > n {
		out = out[:n]
	}
	return out
}

// Value size classes.
var valueSizeClasses = []int{0, 1, 2, 7, 16, 60, 200, 490, 500, 506, 512, 518, 1000, 4080, 4090, 4096, 4102}

// MakeValue builds a unique value: it embeds (writer, counter) and is padded to size.
// A size smaller than the tag keeps uniqueness only through the tag prefix; callers that need
// attribution use sizes >= 12 or track by (size, content).
func MakeValue(writer, counter int, size int) []byte {
	tag := fmt.Sprintf("w%d.%d|", writer, counter)
	if size <= len(tag) {
		// compact unique encoding for tiny sizes is impossible; fall back to tag bytes truncated
		b := []byte(tag)
		return b[:size]
	}
	v := make([]byte, size)
	copy(v, tag)
	x := uint32(writer*7919 + counter*104729 + 1)
	for i := len(tag); i < size; i++ {
		x = x*1664525 + 1013904223
		v[i] = byte(x >> 24)
	}
	return v
}
