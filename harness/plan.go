package harness

import (
	"encoding/hex"
	"encoding/json"
	"fmt"
	"math/rand"
	"os"
)

// Op is one API call of a plan. Keys are indices into the plan's key universe.
type Op struct {
	K    string `json:"k"`            // put del get geta has count items sync compact close open backup filesize
	Key  int    `json:"key,omitempty"`
	Size int    `json:"size,omitempty"` // value size (put) / prefix length (geta)
	ID   int    `json:"id,omitempty"`   // unique value counter (put)
}

func (o Op) String() string {
	switch o.K {
	case "put":
		return fmt.Sprintf("put(k%d,#%d,%dB)", o.Key, o.ID, o.Size)
	case "del", "get", "has":
		return fmt.Sprintf("%s(k%d)", o.K, o.Key)
	case "geta":
		return fmt.Sprintf("geta(k%d,%d)", o.Key, o.Size)
	case "delbucket":
		return fmt.Sprintf("delbucket(#%d)", o.ID)
	}
	return o.K
}

// Cfg is everything one run depends on besides its operations.
type Cfg struct {
	Family      int     `json:"family"`
	NKeys       int     `json:"nkeys"`
	HashSeed    uint32  `json:"hash_seed"`
	FreshSeeds  bool    `json:"fresh_seeds"` // a new hash seed at every (re)seeding instead of a constant one
	MaxSeg      uint32  `json:"max_seg"`
	CompMinSeg  uint32  `json:"comp_min_seg"`
	CompFrag    float32 `json:"comp_frag"`
	SyncMode    int     `json:"sync_mode"` // 0 none, 1 explicit Sync ops, 2 sync after every write (-1)
	Alias       bool    `json:"alias"`
	Poison      bool    `json:"poison"`
	ShortReads  bool    `json:"short_reads"`
	PermuteDir  bool    `json:"permute_dir"`
	FSSeed      int64   `json:"fs_seed"`
	// ContAtEnd (crash engine): every epoch but the last continues from the image taken after its last call
	ContAtEnd   bool    `json:"cont_at_end,omitempty"`
	BgSyncMs    int     `json:"bg_sync_ms,omitempty"`
	BgCompactMs int     `json:"bg_compact_ms,omitempty"`
	// scheduler
	FSYields bool    `json:"fs_yields,omitempty"`
	UnlockYields bool `json:"unlock_yields,omitempty"`
	// RecoverFirst: the preload of a concurrent run is executed in an earlier session that ends in a process
	// crash; the run itself starts with the recovering Open (segment metadata rebuilt by recovery)
	RecoverFirst bool `json:"recover_first,omitempty"`
	Sticky   int     `json:"sticky,omitempty"`
	TickProb float64 `json:"tick_prob,omitempty"`
	SchedSeed int64  `json:"sched_seed,omitempty"`
	RealFS    string `json:"real_fs,omitempty"` // REAL mode (C10 race clause): mem | os | osmmap
	MmapInit  int64  `json:"mmap_init,omitempty"` // initial mapping size of fs.OSMMap in the scratch build (0 = shipped 1 GiB)
}

// Fault describes the injected fault(s) of a replay.
type Fault struct {
	Kind  string  `json:"kind"`            // pcrash | ploss | damage | garbage-header
	Point int     `json:"point,omitempty"` // journal index
	Cut   int64   `json:"cut,omitempty"`   // torn-write cut offset, 0 = none
	Keep  map[string][2]int64 `json:"keep,omitempty"` // power loss: per file (ops kept, cut)
	Family string `json:"family,omitempty"`
	Extra map[string]interface{} `json:"extra,omitempty"`
}

// Plan is a complete, self-contained description of one run: replaying it needs nothing else.
type Plan struct {
	Property string   `json:"property"`
	Engine   string   `json:"engine"`
	Seed     int64    `json:"seed"`
	Cfg      Cfg      `json:"cfg"`
	Keys     []string `json:"keys_hex"`
	Tasks    [][]Op   `json:"tasks"` // sequential engines use Tasks[0]
	Epochs   [][]Op   `json:"epochs,omitempty"`
	Tape     []int    `json:"tape,omitempty"`
	Faults   []Fault  `json:"faults,omitempty"`
	Golden   string   `json:"golden,omitempty"` // C18: name of the golden image the run starts from
	// filled in on failure
	Class  string `json:"violation_class,omitempty"`
	Detail string `json:"violation_detail,omitempty"`

	keys [][]byte
}

func (p *Plan) KeyBytes() [][]byte {
	if p.keys == nil {
		for _, h := range p.Keys {
			b, err := hex.DecodeString(h)
			if err != nil {
				panic(err)
			}
			p.keys = append(p.keys, b)
		}
	}
	return p.keys
}

func (p *Plan) SetKeys(keys [][]byte) {
	p.keys = keys
	p.Keys = nil
	for _, k := range keys {
		p.Keys = append(p.Keys, hex.EncodeToString(k))
	}
}

func (p *Plan) Clone() *Plan {
	b, _ := json.Marshal(p)
	var q Plan
	if err := json.Unmarshal(b, &q); err != nil {
		panic(err)
	}
	return &q
}

func (p *Plan) NumOps() int {
	n := 0
	for _, t := range p.Tasks {
		n += len(t)
	}
	for _, t := range p.Epochs {
		n += len(t)
	}
	return n
}

func LoadPlan(path string) (*Plan, error) {
	b, err := os.ReadFile(path)
	if err != nil {
		return nil, err
	}
	var p Plan
	if err := json.Unmarshal(b, &p); err != nil {
		return nil, err
	}
	return &p, nil
}

func (p *Plan) Save(path string) error {
	b, err := json.MarshalIndent(p, "", " ")
	if err != nil {
		return err
	}
	return os.WriteFile(path, b, 0644)
}

// Violation is a property violation found by an oracle.
type Violation struct {
	Class  string // short stable identifier: "<oracle>" used for minimisation and known-finding matching
	Detail string
}

func (v *Violation) Error() string { return v.Class + ": " + v.Detail }

func violf(class, format string, a ...interface{}) *Violation {
	return &Violation{Class: class, Detail: fmt.Sprintf(format, a...)}
}

// ---------------------------------------------------------------------------------------------
// Generation.

type GenOpts struct {
	MinOps, MaxOps int
	Weights        map[string]int
	Sessions       bool // allow close/open
	Sizes          []int
	MaxKeys        int
}

func pick(rng *rand.Rand, w map[string]int, order []string) string {
	total := 0
	for _, k := range order {
		total += w[k]
	}
	x := rng.Intn(total)
	for _, k := range order {
		x -= w[k]
		if x < 0 {
			return k
		}
	}
	return order[0]
}

var opOrder = []string{"put", "del", "get", "geta", "has", "count", "items", "sync", "compact", "close", "filesize", "itemsc"}

// GenCfg draws the per-run configuration (swarm style).
func GenCfg(rng *rand.Rand) Cfg {
	c := Cfg{}
	c.HashSeed = rng.Uint32()
	c.FreshSeeds = rng.Intn(3) == 0
	c.Family = rng.Intn(int(numKeyFamilies))
	nk := []int{2, 3, 5, 8, 16, 33, 48, 64}
	c.NKeys = nk[rng.Intn(len(nk))]
	segs := []uint32{600, 700, 1024, 2048, 4096, 8192, 65536}
	c.MaxSeg = segs[rng.Intn(len(segs))]
	c.CompMinSeg = []uint32{1, 513, 600, 1024}[rng.Intn(4)]
	c.CompFrag = []float32{0.01, 0.1, 0.3, 0.5, 0.9}[rng.Intn(5)]
	c.SyncMode = rng.Intn(3)
	c.Alias = rng.Intn(2) == 0
	c.Poison = c.Alias && rng.Intn(3) != 0
	c.ShortReads = rng.Intn(2) == 0
	c.PermuteDir = rng.Intn(2) == 0
	c.FSSeed = rng.Int63()
	return c
}

// GenSeqOps generates a sequential history.
func GenSeqOps(rng *rand.Rand, cfg Cfg, g GenOpts, idBase *int) []Op {
	n := g.MinOps
	if g.MaxOps > g.MinOps {
		n += rng.Intn(g.MaxOps - g.MinOps + 1)
	}
	sizes := g.Sizes
	if sizes == nil {
		sizes = valueSizeClasses
	}
	// per-run size profile: mostly one or two classes so that rollover patterns vary between runs
	prof := []int{sizes[rng.Intn(len(sizes))], sizes[rng.Intn(len(sizes))], sizes[rng.Intn(len(sizes))]}
	var ops []Op
	open := true
	for len(ops) < n {
		k := pick(rng, g.Weights, opOrder)
		if !open {
			ops = append(ops, Op{K: "open"})
			open = true
			continue
		}
		op := Op{K: k}
		switch k {
		case "put":
			op.Key = rng.Intn(cfg.NKeys)
			*idBase++
			op.ID = *idBase
			if rng.Intn(4) == 0 {
				op.Size = sizes[rng.Intn(len(sizes))]
			} else {
				op.Size = prof[rng.Intn(len(prof))]
			}
		case "del", "get", "has":
			op.Key = rng.Intn(cfg.NKeys)
		case "itemsc":
			op.Size = 1 + rng.Intn(8)
		case "geta":
			op.Key = rng.Intn(cfg.NKeys)
			op.Size = []int{0, 0, 1, 5, 100}[rng.Intn(5)]
		case "close":
			if !g.Sessions {
				continue
			}
			open = false
		}
		ops = append(ops, op)
	}
	return ops
}

// Epochs0 returns the preload operations of a concurrent plan (executed by the main task before
// the clients start).
func (p *Plan) Epochs0() []Op {
	if len(p.Epochs) == 0 {
		return nil
	}
	return p.Epochs[0]
}
