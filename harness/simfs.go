package harness

import (
	"fmt"
	"io"
	"math/rand"
	"os"
	"path/filepath"
	"sort"
	"strings"
	"syscall"
	"time"

	"github.com/akrylysov/pogreb/fs"
	"verif.local/sim/sched"
)

// ---------------------------------------------------------------------------------------------
// Journal: every mutating file-system call, in order. A disk image at any instant is a pure
// function of (initial image, journal prefix, fault choice).

type JKind uint8

const (
	JCreate JKind = iota
	JWrite
	JTruncate
	JRename
	JRemove
	JSync
	JMkdir
	JLock   // lock acquired (file created if it did not exist: a separate JCreate precedes)
	JUnlock // lock released: the lock file is removed
)

var jkindNames = [...]string{"create", "write", "truncate", "rename", "remove", "sync", "mkdir", "lock", "unlock"}

func (k JKind) String() string { return jkindNames[k] }

type JEntry struct {
	Kind  JKind
	Ino   int
	Name  string
	Name2 string
	Off   int64
	Size  int64
	Data  []byte
	API   int // index of the API call (of the issuing task) during which the call was made
	Task  int
}

func (e JEntry) String() string {
	switch e.Kind {
	case JWrite:
		return fmt.Sprintf("write(%s ino%d off=%d len=%d)", e.Name, e.Ino, e.Off, len(e.Data))
	case JTruncate:
		return fmt.Sprintf("truncate(%s ino%d size=%d)", e.Name, e.Ino, e.Size)
	case JRename:
		return fmt.Sprintf("rename(%s -> %s)", e.Name, e.Name2)
	default:
		return fmt.Sprintf("%s(%s ino%d)", e.Kind, e.Name, e.Ino)
	}
}

// ---------------------------------------------------------------------------------------------
// Images.

type PendOp struct {
	Trunc bool
	Off   int64 // write offset, or new size for a truncation
	Data  []byte
}

// FileState is one file of a disk image: the content as of its last Sync plus the ordered
// data operations issued since (volatile until the next Sync).
type FileState struct {
	Durable []byte
	Pending []PendOp
}

func applyPend(buf []byte, op PendOp, cut int64) []byte {
	if op.Trunc {
		if op.Off <= int64(len(buf)) {
			return buf[:op.Off]
		}
		return append(buf, make([]byte, op.Off-int64(len(buf)))...)
	}
	data := op.Data
	if cut >= 0 && cut < int64(len(data)) {
		data = data[:cut]
	}
	end := op.Off + int64(len(data))
	if end > int64(len(buf)) {
		buf = append(buf, make([]byte, end-int64(len(buf)))...)
	}
	copy(buf[op.Off:end], data)
	return buf
}

// Cur returns the content a running (or merely process-crashed) system sees.
func (f *FileState) Cur() []byte {
	buf := append([]byte(nil), f.Durable...)
	for _, op := range f.Pending {
		buf = applyPend(buf, op, -1)
	}
	return buf
}

// Image is a disk image: files by full path, plus the set of directories.
type Image struct {
	Files map[string]*FileState
	Dirs  map[string]bool
}

func NewImage() *Image { return &Image{Files: map[string]*FileState{}, Dirs: map[string]bool{}} }

func (im *Image) Clone() *Image {
	n := NewImage()
	for k, v := range im.Files {
		fs := &FileState{Durable: append([]byte(nil), v.Durable...)}
		for _, p := range v.Pending {
			fs.Pending = append(fs.Pending, p) // pending data is immutable
		}
		n.Files[k] = fs
	}
	for k := range im.Dirs {
		n.Dirs[k] = true
	}
	return n
}

func (im *Image) Names() []string {
	var ns []string
	for k := range im.Files {
		ns = append(ns, k)
	}
	sort.Strings(ns)
	return ns
}

// Digest is a content hash of what a process would see.
func (im *Image) Digest() uint64 {
	h := uint64(1469598103934665603)
	for _, n := range im.Names() {
		h = fnvAdd(h, []byte(n))
		h = fnvAdd(h, []byte{0})
		h = fnvAdd(h, im.Files[n].Cur())
		h = fnvAdd(h, []byte{1})
	}
	return h
}

func fnvAdd(h uint64, b []byte) uint64 {
	for _, c := range b {
		h ^= uint64(c)
		h *= 1099511628211
	}
	return h
}

// ---------------------------------------------------------------------------------------------
// Replayer: applies journal entries to an image, tracking durable/pending per inode.

type rInode struct {
	st *FileState
	// cur is a cache of st.Cur() (maintained incrementally).
	cur []byte
}

type Replayer struct {
	names map[string]int
	inos  map[int]*rInode
	dirs  map[string]bool
	base  int // inode numbers of the initial image are negative
}

func NewReplayer(initial *Image) *Replayer {
	r := &Replayer{names: map[string]int{}, inos: map[int]*rInode{}, dirs: map[string]bool{}}
	i := -1
	for _, n := range initial.Names() {
		st := initial.Files[n]
		cp := &FileState{Durable: append([]byte(nil), st.Durable...), Pending: append([]PendOp(nil), st.Pending...)}
		r.names[n] = i
		r.inos[i] = &rInode{st: cp, cur: cp.Cur()}
		i--
	}
	for d := range initial.Dirs {
		r.dirs[d] = true
	}
	return r
}

// Apply applies one journal entry completely.
func (r *Replayer) Apply(e *JEntry) {
	switch e.Kind {
	case JCreate:
		r.names[e.Name] = e.Ino
		r.inos[e.Ino] = &rInode{st: &FileState{}}
	case JWrite:
		in := r.inos[e.Ino]
		if in == nil {
			return
		}
		op := PendOp{Off: e.Off, Data: e.Data}
		in.st.Pending = append(in.st.Pending, op)
		in.cur = applyPend(in.cur, op, -1)
	case JTruncate:
		in := r.inos[e.Ino]
		if in == nil {
			return
		}
		op := PendOp{Trunc: true, Off: e.Size}
		in.st.Pending = append(in.st.Pending, op)
		in.cur = applyPend(in.cur, op, -1)
	case JSync:
		in := r.inos[e.Ino]
		if in == nil {
			return
		}
		in.st.Durable = append([]byte(nil), in.cur...)
		in.st.Pending = nil
	case JRename:
		if ino, ok := r.names[e.Name]; ok {
			delete(r.names, e.Name)
			r.names[e.Name2] = ino
		}
	case JRemove, JUnlock:
		delete(r.names, e.Name)
	case JMkdir:
		r.dirs[e.Name] = true
	case JLock:
	}
}

// InodeMap returns the current name -> inode mapping (for callers that need to address inodes).
func (r *Replayer) Names() map[string]int { return r.names }

// ProcessCrashImage returns the image after a process crash now: all applied calls are visible,
// durable/pending tracking is preserved (the page cache survives the process).
// If torn != nil it is a write entry in flight, applied up to file offset cutAt.
func (r *Replayer) ProcessCrashImage(torn *JEntry, cutAt int64) *Image {
	im := NewImage()
	for n, ino := range r.names {
		in := r.inos[ino]
		st := &FileState{Durable: in.st.Durable, Pending: in.st.Pending}
		if torn != nil && torn.Ino == ino {
			st = &FileState{Durable: in.st.Durable, Pending: append(append([]PendOp(nil), in.st.Pending...), PendOp{Off: torn.Off, Data: torn.Data[:cutAt-torn.Off]})}
		}
		im.Files[n] = st
	}
	for d := range r.dirs {
		im.Dirs[d] = true
	}
	return im
}

// PowerLossChoice selects, per file, how many pending operations survive and where the last
// surviving write is cut.
type PowerLossChoice func(name string, st *FileState) (keep int, cut int64)

// PowerLossImage returns the image after a power failure now.
func (r *Replayer) PowerLossImage(choose PowerLossChoice) *Image {
	im := NewImage()
	names := make([]string, 0, len(r.names))
	for n := range r.names {
		names = append(names, n)
	}
	sort.Strings(names)
	for _, n := range names {
		in := r.inos[r.names[n]]
		keep, cut := choose(n, in.st)
		if keep > len(in.st.Pending) {
			keep = len(in.st.Pending)
		}
		buf := append([]byte(nil), in.st.Durable...)
		for i := 0; i < keep; i++ {
			c := int64(-1)
			if i == keep-1 {
				c = cut
			}
			buf = applyPend(buf, in.st.Pending[i], c)
		}
		im.Files[n] = &FileState{Durable: buf}
	}
	for d := range r.dirs {
		im.Dirs[d] = true
	}
	return im
}

// TornCuts lists the 512-aligned file offsets strictly inside a write.
func TornCuts(off int64, n int) []int64 {
	var cuts []int64
	first := (off/512 + 1) * 512
	for c := first; c < off+int64(n); c += 512 {
		cuts = append(cuts, c)
	}
	return cuts
}

// ---------------------------------------------------------------------------------------------
// SimFS.

type FSConfig struct {
	Alias       bool // Slice returns a view of the file buffer (like OSMMap / Mem) instead of a copy
	Poison      bool // with Alias: buffers are overwritten with 0xDB when unmapped (growth, last close)
	ShortReads  bool // Read may return fewer bytes than requested
	PermuteDir  bool // ReadDir returns a seeded permutation instead of sorted order
	Journal     bool
	Seed        int64
	ReadDirHook func(dir string)
}

type inode struct {
	id    int
	data  []byte
	open  int
	nlink int
	// virt, when set, makes the file's content procedural (C19: a segment larger than 2 GiB without
	// holding it in memory). Reads are served by virt.at, Truncate shortens it, writes are refused.
	virt *virtContent
}

type virtContent struct {
	length int64
	at     func(off int64, p []byte) // fills p with the bytes at [off, off+len(p)), all inside length
	// writable: bytes appended behind the procedural part live in inode.data (hybrid file: a huge
	// procedural prefix followed by an ordinary in-memory tail)
	writable bool
}

func (in *inode) size() int64 {
	if in.virt != nil {
		return in.virt.length + int64(len(in.data))
	}
	return int64(len(in.data))
}

// readVirt fills p with the bytes at [off, off+len(p)) of a (hybrid) procedural file; the range is inside the file.
func (in *inode) readVirt(off int64, p []byte) {
	v := in.virt
	if off < v.length {
		n := int64(len(p))
		if off+n > v.length {
			n = v.length - off
		}
		v.at(off, p[:n])
		p = p[n:]
		off += n
	}
	if len(p) > 0 {
		copy(p, in.data[off-v.length:])
	}
}

// SetVirtualPrefix turns an existing file into a hybrid: its first `length` bytes become procedural
// (what is there now is dropped), later writes append behind them into memory.
func (s *SimFS) SetVirtualPrefix(name string, length int64, at func(off int64, p []byte)) {
	s.SetVirtual(name, length, at)
	s.files[filepath.Clean(name)].virt.writable = true
}

// SetVirtual replaces the content of an existing file by procedural content.
func (s *SimFS) SetVirtual(name string, length int64, at func(off int64, p []byte)) {
	in := s.files[filepath.Clean(name)]
	if in == nil {
		s.nextIno++
		in = &inode{id: s.nextIno, nlink: 1}
		s.files[filepath.Clean(name)] = in
	}
	in.data = nil
	in.virt = &virtContent{length: length, at: at}
}

// FileSize returns the logical size of a file (-1 if it does not exist).
func (s *SimFS) FileSize(name string) int64 {
	if in := s.files[filepath.Clean(name)]; in != nil {
		return in.size()
	}
	return -1
}

type FSStats struct {
	Ops         map[string]int
	MaxReadReq  int
	MaxReadOver int64 // largest (request - bytes remaining in file) seen by Read/ReadAt
	ShortReads  int
	Poisoned    int
	Remaps      int
	// SliceOverAlloc: bytes allocated by Slice calls that reached past the end of the file (copying personality)
	SliceOverAlloc int64
}

type SimFS struct {
	cfg      FSConfig
	rng      *rand.Rand
	files    map[string]*inode
	dirs     map[string]bool
	lockHeld map[string]bool
	nextIno  int
	Journal  []JEntry
	apiOf    map[int]int
	Stats    FSStats
	// OnMutate, when set, observes every journal entry as it is issued.
	OnMutate func(e *JEntry)
	// live slices handed out by Slice in alias mode are views into these buffers
	handles int
	// injected I/O error (short write reported as an error)
	failNext    bool
	failKeep    int
	failSync    bool
	failMeta    int
	FaultsFired int
}

var _ fs.FileSystem = (*SimFS)(nil)

func NewSimFS(cfg FSConfig, initial *Image) *SimFS {
	s := &SimFS{cfg: cfg, rng: rand.New(rand.NewSource(cfg.Seed ^ 0x5bd1e995)), files: map[string]*inode{}, dirs: map[string]bool{}, lockHeld: map[string]bool{}, apiOf: map[int]int{}}
	s.Stats.Ops = map[string]int{}
	if initial != nil {
		i := -1
		for _, n := range initial.Names() {
			s.files[n] = &inode{id: i, data: initial.Files[n].Cur(), nlink: 1}
			i--
		}
		for d := range initial.Dirs {
			s.dirs[d] = true
		}
	}
	return s
}

// SetAPI records the index of the API call the given task is executing.
func (s *SimFS) SetAPI(task, api int) { s.apiOf[task] = api }

func (s *SimFS) enter(op string) int {
	s.Stats.Ops[op]++
	if sim := sched.Active(); sim != nil {
		if sim.FSYields() {
			sched.YieldIfActive("fs." + op)
		}
		return simTaskID(sim)
	}
	return 0
}

func simTaskID(sim *sched.Sim) (id int) {
	defer func() {
		if recover() != nil {
			id = 0
		}
	}()
	return sim.Current().ID
}

func (s *SimFS) log(e JEntry, task int) {
	e.Task = task
	e.API = s.apiOf[task]
	if s.OnMutate != nil {
		s.OnMutate(&e)
	}
	if s.cfg.Journal {
		s.Journal = append(s.Journal, e)
	}
}

// Snapshot returns the image a process crash right now would leave (no durability tracking).
func (s *SimFS) Snapshot() *Image {
	im := NewImage()
	for n, in := range s.files {
		im.Files[n] = &FileState{Durable: append([]byte(nil), in.data...)}
	}
	for d := range s.dirs {
		im.Dirs[d] = true
	}
	return im
}

// FileNames returns the sorted paths of all files.
func (s *SimFS) FileNames() []string {
	var ns []string
	for n := range s.files {
		ns = append(ns, n)
	}
	sort.Strings(ns)
	return ns
}

// FileBytes returns the live content of a file (not a copy) or nil.
func (s *SimFS) FileBytes(name string) []byte {
	if in := s.files[name]; in != nil {
		return in.data
	}
	return nil
}

// OpenHandles returns the number of open file handles, and per path.
func (s *SimFS) OpenHandles() (int, map[string]int) {
	m := map[string]int{}
	total := 0
	for n, in := range s.files {
		if in.open > 0 {
			m[n] = in.open
			total += in.open
		}
	}
	return s.handles, m
}

// RemoveTree drops a directory and its files (harness housekeeping; not journalled).
func (s *SimFS) RemoveTree(dir string) {
	for n := range s.files {
		if strings.HasPrefix(n, dir+"/") {
			delete(s.files, n)
		}
	}
	delete(s.dirs, dir)
}

// LocksHeld returns the number of lock files currently held.
func (s *SimFS) LocksHeld() int {
	n := 0
	for _, h := range s.lockHeld {
		if h {
			n++
		}
	}
	return n
}

func (s *SimFS) parentExists(name string) bool {
	d := filepath.Dir(name)
	return d == "." || d == "/" || s.dirs[d]
}

func (s *SimFS) OpenFile(name string, flag int, perm os.FileMode) (fs.File, error) {
	task := s.enter("open")
	name = filepath.Clean(name)
	if flag&os.O_APPEND != 0 {
		return nil, fmt.Errorf("simfs: append mode is not supported")
	}
	in := s.files[name]
	if in == nil {
		if flag&os.O_CREATE == 0 {
			return nil, &os.PathError{Op: "open", Path: name, Err: os.ErrNotExist}
		}
		if !s.parentExists(name) {
			return nil, &os.PathError{Op: "open", Path: name, Err: os.ErrNotExist}
		}
		s.nextIno++
		in = &inode{id: s.nextIno, nlink: 1}
		s.files[name] = in
		s.log(JEntry{Kind: JCreate, Ino: in.id, Name: name}, task)
	} else if flag&os.O_TRUNC != 0 && len(in.data) > 0 {
		s.setData(in, nil)
		s.log(JEntry{Kind: JTruncate, Ino: in.id, Name: name, Size: 0}, task)
	}
	in.open++
	s.handles++
	writable := flag&(os.O_RDWR|os.O_WRONLY) != 0
	return &simFile{fs: s, in: in, name: name, writable: writable}, nil
}

// setData replaces the inode buffer; in alias+poison mode the old buffer is destroyed.
func (s *SimFS) setData(in *inode, nd []byte) {
	old := in.data
	in.data = nd
	if s.cfg.Alias && s.cfg.Poison && len(old) > 0 {
		for i := range old[:cap(old)] {
			old[:cap(old)][i] = 0xDB
		}
		s.Stats.Poisoned++
	}
}

func (s *SimFS) Stat(name string) (os.FileInfo, error) {
	s.enter("stat")
	name = filepath.Clean(name)
	in := s.files[name]
	if in == nil {
		return nil, &os.PathError{Op: "stat", Path: name, Err: os.ErrNotExist}
	}
	return &simInfo{name: filepath.Base(name), size: in.size()}, nil
}

func (s *SimFS) Remove(name string) error {
	task := s.enter("remove")
	name = filepath.Clean(name)
	in := s.files[name]
	if in == nil {
		return &os.PathError{Op: "remove", Path: name, Err: os.ErrNotExist}
	}
	delete(s.files, name)
	in.nlink = 0
	s.log(JEntry{Kind: JRemove, Ino: in.id, Name: name}, task)
	if in.open == 0 {
		s.setData(in, nil)
	}
	return nil
}

func (s *SimFS) Rename(oldpath, newpath string) error {
	task := s.enter("rename")
	oldpath, newpath = filepath.Clean(oldpath), filepath.Clean(newpath)
	in := s.files[oldpath]
	if in == nil {
		return &os.PathError{Op: "rename", Path: oldpath, Err: os.ErrNotExist}
	}
	if old := s.files[newpath]; old != nil && old != in {
		old.nlink = 0
	}
	delete(s.files, oldpath)
	s.files[newpath] = in
	s.log(JEntry{Kind: JRename, Ino: in.id, Name: oldpath, Name2: newpath}, task)
	return nil
}

func (s *SimFS) ReadDir(dir string) ([]os.DirEntry, error) {
	s.enter("readdir")
	dir = filepath.Clean(dir)
	if s.cfg.ReadDirHook != nil {
		s.cfg.ReadDirHook(dir)
	}
	if dir != "." && !s.dirs[dir] {
		return nil, &os.PathError{Op: "readdir", Path: dir, Err: os.ErrNotExist}
	}
	var names []string
	for n := range s.files {
		if filepath.Dir(n) == dir {
			names = append(names, n)
		}
	}
	sort.Strings(names)
	if s.cfg.PermuteDir {
		s.rng.Shuffle(len(names), func(i, j int) { names[i], names[j] = names[j], names[i] })
	}
	var out []os.DirEntry
	for _, n := range names {
		out = append(out, &simInfo{name: filepath.Base(n), size: s.files[n].size()})
	}
	return out, nil
}

func (s *SimFS) MkdirAll(path string, perm os.FileMode) error {
	task := s.enter("mkdir")
	path = filepath.Clean(path)
	if path == "." {
		return nil
	}
	parts := strings.Split(path, string(filepath.Separator))
	cur := ""
	for _, p := range parts {
		if cur == "" {
			cur = p
		} else {
			cur = cur + string(filepath.Separator) + p
		}
		if cur == "" {
			continue
		}
		if !s.dirs[cur] {
			s.dirs[cur] = true
			s.log(JEntry{Kind: JMkdir, Name: cur}, task)
		}
	}
	return nil
}

type simLock struct {
	fs   *SimFS
	name string
	done bool
}

func (s *SimFS) CreateLockFile(name string, perm os.FileMode) (fs.LockFile, bool, error) {
	task := s.enter("lock")
	name = filepath.Clean(name)
	if s.lockHeld[name] {
		return nil, false, os.ErrExist
	}
	in := s.files[name]
	existed := in != nil
	if !existed {
		if !s.parentExists(name) {
			return nil, false, &os.PathError{Op: "open", Path: name, Err: os.ErrNotExist}
		}
		s.nextIno++
		in = &inode{id: s.nextIno, nlink: 1}
		s.files[name] = in
		s.log(JEntry{Kind: JCreate, Ino: in.id, Name: name}, task)
	}
	s.lockHeld[name] = true
	s.log(JEntry{Kind: JLock, Ino: in.id, Name: name}, task)
	return &simLock{fs: s, name: name}, existed, nil
}

func (l *simLock) Unlock() error {
	task := l.fs.enter("unlock")
	if l.done {
		return os.ErrClosed
	}
	l.done = true
	in := l.fs.files[l.name]
	if in == nil {
		l.fs.lockHeld[l.name] = false
		return &os.PathError{Op: "remove", Path: l.name, Err: os.ErrNotExist}
	}
	delete(l.fs.files, l.name)
	l.fs.lockHeld[l.name] = false
	l.fs.log(JEntry{Kind: JUnlock, Ino: in.id, Name: l.name}, task)
	return nil
}

// Crash kills the process: every handle dies, locks are released, files stay.
func (s *SimFS) Crash() {
	for n := range s.lockHeld {
		s.lockHeld[n] = false
	}
	for _, in := range s.files {
		in.open = 0
	}
	s.handles = 0
}

// --- file ---

type simFile struct {
	fs       *SimFS
	in       *inode
	name     string
	off      int64
	closed   bool
	writable bool
}

func (f *simFile) Close() error {
	f.fs.enter("close")
	if f.closed {
		return os.ErrClosed
	}
	f.closed = true
	f.in.open--
	f.fs.handles--
	if f.in.open == 0 && f.fs.cfg.Alias && f.fs.cfg.Poison {
		// munmap: every slice handed out becomes garbage; the file content lives on in a new buffer.
		nd := append([]byte(nil), f.in.data...)
		f.fs.setData(f.in, nd)
	}
	return nil
}

func (f *simFile) noteRead(req int, off int64) {
	if req > f.fs.Stats.MaxReadReq {
		f.fs.Stats.MaxReadReq = req
	}
	remain := f.in.size() - off
	if remain < 0 {
		remain = 0
	}
	if over := int64(req) - remain; over > f.fs.Stats.MaxReadOver {
		f.fs.Stats.MaxReadOver = over
	}
}

func (f *simFile) Read(p []byte) (int, error) {
	f.fs.enter("read")
	if f.closed {
		return 0, os.ErrClosed
	}
	f.noteRead(len(p), f.off)
	if len(p) == 0 {
		return 0, nil
	}
	if f.off >= f.in.size() {
		return 0, io.EOF
	}
	if f.in.virt != nil {
		n := len(p)
		if int64(n) > f.in.size()-f.off {
			n = int(f.in.size() - f.off)
		}
		f.in.readVirt(f.off, p[:n])
		f.off += int64(n)
		return n, nil
	}
	n := copy(p, f.in.data[f.off:])
	if f.fs.cfg.ShortReads && n > 1 && f.fs.rng.Intn(3) == 0 {
		n = 1 + f.fs.rng.Intn(n-1)
		f.fs.Stats.ShortReads++
	}
	f.off += int64(n)
	return n, nil
}

func (f *simFile) ReadAt(p []byte, off int64) (int, error) {
	f.fs.enter("readat")
	if f.closed {
		return 0, os.ErrClosed
	}
	f.noteRead(len(p), off)
	if off >= f.in.size() {
		return 0, io.EOF
	}
	if f.in.virt != nil {
		n := len(p)
		if int64(n) > f.in.size()-off {
			n = int(f.in.size() - off)
		}
		f.in.readVirt(off, p[:n])
		if n < len(p) {
			return n, io.EOF
		}
		return n, nil
	}
	n := copy(p, f.in.data[off:])
	if n < len(p) {
		return n, io.EOF
	}
	return n, nil
}

func (f *simFile) Seek(offset int64, whence int) (int64, error) {
	f.fs.enter("seek")
	if f.closed {
		return 0, os.ErrClosed
	}
	switch whence {
	case io.SeekStart:
		f.off = offset
	case io.SeekCurrent:
		f.off += offset
	case io.SeekEnd:
		f.off = f.in.size() + offset
	}
	return f.off, nil
}

// ArmWriteFault makes the next record append to a segment file (a write at an offset past the header)
// fail with ENOSPC after keep%len bytes of it were stored: a short write reported as an error.
func (s *SimFS) ArmWriteFault(keep int) { s.failNext, s.failKeep = true, keep }

// DisarmWriteFault cancels armed faults that did not fire.
func (s *SimFS) DisarmWriteFault() { s.failNext, s.failSync, s.failMeta = false, false, 0 }

// ArmSyncFault makes the next Sync of a segment file fail with EIO (nothing becomes durable by it).
func (s *SimFS) ArmSyncFault() { s.failSync = true }

// ArmMetaFault makes the k-th (1-based) write to a metadata file from now on fail with ENOSPC after half of it
// was stored. A metadata file is whatever is neither a segment, an index file nor the lock (*.pmt today; a build
// that writes them through temporary files and renames is hit at its temporary files).
func (s *SimFS) ArmMetaFault(k int) { s.failMeta = k }

func isMetadataFileName(n string) bool {
	return !strings.HasSuffix(n, ".psg") && !strings.HasSuffix(n, ".pix") && !strings.HasSuffix(n, "/lock") && n != "lock"
}

func (f *simFile) write(p []byte, off int64, task int) (int, error) {
	if f.closed {
		return 0, os.ErrClosed
	}
	if !f.writable {
		return 0, &os.PathError{Op: "write", Path: f.name, Err: os.ErrPermission}
	}
	if v := f.in.virt; v != nil {
		if !v.writable || off < v.length {
			return 0, &os.PathError{Op: "write", Path: f.name, Err: os.ErrInvalid}
		}
		rel := off - v.length
		if end := rel + int64(len(p)); end > int64(len(f.in.data)) {
			f.in.data = append(f.in.data, make([]byte, end-int64(len(f.in.data)))...)
		}
		copy(f.in.data[rel:], p)
		f.fs.log(JEntry{Kind: JWrite, Ino: f.in.id, Name: f.name, Off: off, Data: append([]byte(nil), p...)}, task)
		return len(p), nil
	}
	if f.fs.failMeta > 0 && len(p) > 0 && isMetadataFileName(f.name) {
		f.fs.failMeta--
		if f.fs.failMeta == 0 {
			f.fs.FaultsFired++
			n := len(p) / 2
			if n > 0 {
				end := off + int64(n)
				if end > int64(len(f.in.data)) {
					f.grow(end)
				}
				copy(f.in.data[off:end], p[:n])
				f.fs.log(JEntry{Kind: JWrite, Ino: f.in.id, Name: f.name, Off: off, Data: append([]byte(nil), p[:n]...)}, task)
			}
			return n, &os.PathError{Op: "write", Path: f.name, Err: syscall.ENOSPC}
		}
	}
	if f.fs.failNext && off >= 512 && len(p) > 0 && strings.HasSuffix(f.name, ".psg") {
		f.fs.failNext = false
		f.fs.FaultsFired++
		n := f.fs.failKeep % len(p)
		if n > 0 {
			end := off + int64(n)
			if end > int64(len(f.in.data)) {
				f.grow(end)
			}
			copy(f.in.data[off:end], p[:n])
			f.fs.log(JEntry{Kind: JWrite, Ino: f.in.id, Name: f.name, Off: off, Data: append([]byte(nil), p[:n]...)}, task)
		}
		return n, &os.PathError{Op: "write", Path: f.name, Err: syscall.ENOSPC}
	}
	end := off + int64(len(p))
	if end > int64(len(f.in.data)) {
		f.grow(end)
	}
	copy(f.in.data[off:end], p)
	f.fs.log(JEntry{Kind: JWrite, Ino: f.in.id, Name: f.name, Off: off, Data: append([]byte(nil), p...)}, task)
	return len(p), nil
}

func (f *simFile) grow(size int64) {
	if f.fs.cfg.Alias && f.fs.cfg.Poison {
		nd := make([]byte, size)
		copy(nd, f.in.data)
		f.fs.setData(f.in, nd)
		f.fs.Stats.Remaps++
		return
	}
	f.in.data = append(f.in.data, make([]byte, size-int64(len(f.in.data)))...)
}

func (f *simFile) Write(p []byte) (int, error) {
	task := f.fs.enter("write")
	n, err := f.write(p, f.off, task)
	f.off += int64(n)
	return n, err
}

func (f *simFile) WriteAt(p []byte, off int64) (int, error) {
	task := f.fs.enter("writeat")
	return f.write(p, off, task)
}

func (f *simFile) Stat() (os.FileInfo, error) {
	f.fs.enter("fstat")
	if f.closed {
		return nil, os.ErrClosed
	}
	return &simInfo{name: filepath.Base(f.name), size: f.in.size()}, nil
}

func (f *simFile) Sync() error {
	task := f.fs.enter("sync")
	if f.closed {
		return os.ErrClosed
	}
	if f.fs.failSync && strings.HasSuffix(f.name, ".psg") {
		f.fs.failSync = false
		f.fs.FaultsFired++
		return &os.PathError{Op: "sync", Path: f.name, Err: syscall.EIO}
	}
	f.fs.log(JEntry{Kind: JSync, Ino: f.in.id, Name: f.name}, task)
	return nil
}

func (f *simFile) Truncate(size int64) error {
	task := f.fs.enter("truncate")
	if f.closed {
		return os.ErrClosed
	}
	if !f.writable {
		return &os.PathError{Op: "truncate", Path: f.name, Err: os.ErrPermission}
	}
	if v := f.in.virt; v != nil {
		switch {
		case size <= v.length:
			v.length = size
			f.in.data = nil
		case v.writable && size <= f.in.size():
			f.in.data = f.in.data[:size-v.length]
		case v.writable:
			f.in.data = append(f.in.data, make([]byte, size-f.in.size())...)
		default:
			return &os.PathError{Op: "truncate", Path: f.name, Err: os.ErrInvalid}
		}
		f.fs.log(JEntry{Kind: JTruncate, Ino: f.in.id, Name: f.name, Size: size}, task)
		return nil
	}
	if size > int64(len(f.in.data)) {
		f.grow(size)
	} else if f.fs.cfg.Alias && f.fs.cfg.Poison {
		nd := append([]byte(nil), f.in.data[:size]...)
		f.fs.setData(f.in, nd)
	} else {
		f.in.data = f.in.data[:size]
	}
	f.fs.log(JEntry{Kind: JTruncate, Ino: f.in.id, Name: f.name, Size: size}, task)
	return nil
}

func (f *simFile) Slice(start, end int64) ([]byte, error) {
	f.fs.enter("slice")
	if f.closed {
		return nil, os.ErrClosed
	}
	if !f.fs.cfg.Alias && end > f.in.size() && end >= start {
		// the copying personality behaves like the shipped fs.OS: it allocates the requested length first and
		// finds out that the file is shorter when it reads (a caller that passes untrusted lengths pays for them)
		b := make([]byte, end-start)
		_ = b
		f.fs.Stats.SliceOverAlloc += end - start
		return nil, io.EOF
	}
	if end > f.in.size() {
		return nil, io.EOF
	}
	if f.in.virt != nil {
		b := make([]byte, end-start)
		f.in.readVirt(start, b)
		return b, nil
	}
	if f.fs.cfg.Alias {
		// like fs.Mem and fs.OSMMap: the capacity of the view extends to the end of the buffer
		return f.in.data[start:end], nil
	}
	return append([]byte(nil), f.in.data[start:end]...), nil
}

// SliceRange reports whether p points into a live buffer of the file system.
func (s *SimFS) Overlaps(p []byte) bool {
	if len(p) == 0 {
		return false
	}
	for _, in := range s.files {
		if len(in.data) == 0 {
			continue
		}
		if sliceOverlap(in.data[:cap(in.data)], p) {
			return true
		}
	}
	return false
}

type simInfo struct {
	name string
	size int64
}

func (i *simInfo) Name() string               { return i.name }
func (i *simInfo) Size() int64                { return i.size }
func (i *simInfo) Mode() os.FileMode          { return 0640 }
func (i *simInfo) ModTime() time.Time         { return time.Unix(0, 0) }
func (i *simInfo) IsDir() bool                { return false }
func (i *simInfo) Sys() interface{}           { return nil }
func (i *simInfo) Type() os.FileMode          { return 0 }
func (i *simInfo) Info() (os.FileInfo, error) { return i, nil }
