package harness

import (
	"io"
	"math/rand"
	"os"
	"path/filepath"
	"sort"

	"github.com/akrylysov/pogreb/fs"
)

// tapFS wraps any fs.FileSystem (the simulated disk, fs.Mem, fs.OS, fs.OSMMap). It counts the
// mutating calls the database makes, lets the harness take a crash snapshot of the directory right
// before the k-th one, and makes the directory listing order a seeded choice (fs.Mem lists a Go map).
type tapFS struct {
	inner fs.FileSystem
	// n counts mutating calls since the last arm(); when it reaches target the hook runs (once),
	// before the call is applied.
	n      int
	target int
	hook   func(c tapCall)
	calls  int // all mutating calls of the run
	rng    *rand.Rand
	permute bool
}

type tapCall struct {
	Kind string // create truncate-open write truncate remove rename lock unlock
	Name string
	Off  int64
	Data []byte
	Size int64
}

func newTapFS(inner fs.FileSystem, seed int64, permute bool) *tapFS {
	return &tapFS{inner: inner, target: -1, rng: rand.New(rand.NewSource(seed)), permute: permute}
}

// arm makes the hook fire right before the k-th (0-based) mutating call from now on.
func (t *tapFS) arm(k int, hook func(c tapCall)) {
	t.n, t.target, t.hook = 0, k, hook
}

func (t *tapFS) disarm() { t.target, t.hook = -1, nil }

func (t *tapFS) mut(c tapCall) {
	t.calls++
	if t.target >= 0 && t.n == t.target && t.hook != nil {
		h := t.hook
		t.hook = nil
		h(c)
	}
	t.n++
}

func (t *tapFS) OpenFile(name string, flag int, perm os.FileMode) (fs.File, error) {
	if flag&(os.O_CREATE|os.O_TRUNC) != 0 {
		_, err := t.inner.Stat(name)
		if err != nil && flag&os.O_CREATE != 0 {
			t.mut(tapCall{Kind: "create", Name: name})
		} else if err == nil && flag&os.O_TRUNC != 0 {
			t.mut(tapCall{Kind: "truncate-open", Name: name})
		}
	}
	f, err := t.inner.OpenFile(name, flag, perm)
	if err != nil {
		return nil, err
	}
	return &tapFile{File: f, t: t, name: name}, nil
}

func (t *tapFS) CreateLockFile(name string, perm os.FileMode) (fs.LockFile, bool, error) {
	t.mut(tapCall{Kind: "lock", Name: name})
	l, existed, err := t.inner.CreateLockFile(name, perm)
	if err != nil {
		return nil, existed, err
	}
	return &tapLock{LockFile: l, t: t, name: name}, existed, nil
}

func (t *tapFS) Stat(name string) (os.FileInfo, error) { return t.inner.Stat(name) }

func (t *tapFS) Remove(name string) error {
	t.mut(tapCall{Kind: "remove", Name: name})
	return t.inner.Remove(name)
}

func (t *tapFS) Rename(oldpath, newpath string) error {
	t.mut(tapCall{Kind: "rename", Name: oldpath})
	return t.inner.Rename(oldpath, newpath)
}

func (t *tapFS) ReadDir(name string) ([]os.DirEntry, error) {
	es, err := t.inner.ReadDir(name)
	if err != nil {
		return nil, err
	}
	sort.Slice(es, func(i, j int) bool { return es[i].Name() < es[j].Name() })
	if t.permute {
		t.rng.Shuffle(len(es), func(i, j int) { es[i], es[j] = es[j], es[i] })
	}
	return es, nil
}

func (t *tapFS) MkdirAll(path string, perm os.FileMode) error { return t.inner.MkdirAll(path, perm) }

type tapFile struct {
	fs.File
	t    *tapFS
	name string
	off  int64
}

func (f *tapFile) Write(p []byte) (int, error) {
	f.t.mut(tapCall{Kind: "write", Name: f.name, Off: f.off, Data: p})
	n, err := f.File.Write(p)
	f.off += int64(n)
	return n, err
}

func (f *tapFile) WriteAt(p []byte, off int64) (int, error) {
	f.t.mut(tapCall{Kind: "write", Name: f.name, Off: off, Data: p})
	return f.File.WriteAt(p, off)
}

func (f *tapFile) Read(p []byte) (int, error) {
	n, err := f.File.Read(p)
	f.off += int64(n)
	return n, err
}

func (f *tapFile) Seek(offset int64, whence int) (int64, error) {
	o, err := f.File.Seek(offset, whence)
	if err == nil {
		f.off = o
	}
	return o, err
}

func (f *tapFile) Truncate(size int64) error {
	f.t.mut(tapCall{Kind: "truncate", Name: f.name, Size: size})
	return f.File.Truncate(size)
}

type tapLock struct {
	fs.LockFile
	t    *tapFS
	name string
}

func (l *tapLock) Unlock() error {
	l.t.mut(tapCall{Kind: "unlock", Name: l.name})
	return l.LockFile.Unlock()
}

// readFileFS reads a whole file through the FileSystem interface.
func readFileFS(fsys fs.FileSystem, name string) ([]byte, error) {
	f, err := fsys.OpenFile(name, os.O_RDONLY, 0640)
	if err != nil {
		return nil, err
	}
	defer f.Close()
	st, err := f.Stat()
	if err != nil {
		return nil, err
	}
	buf := make([]byte, st.Size())
	if _, err := io.ReadFull(f, buf); err != nil && err != io.EOF && err != io.ErrUnexpectedEOF {
		return nil, err
	}
	return buf, nil
}

func writeFileFS(fsys fs.FileSystem, name string, data []byte) error {
	f, err := fsys.OpenFile(name, os.O_CREATE|os.O_RDWR|os.O_TRUNC, 0640)
	if err != nil {
		return err
	}
	if len(data) > 0 {
		if _, err := f.WriteAt(data, 0); err != nil {
			f.Close()
			return err
		}
	}
	return f.Close()
}

// listDirFS returns the sorted base names of the files of dir.
func listDirFS(fsys fs.FileSystem, dir string) ([]string, error) {
	es, err := fsys.ReadDir(dir)
	if err != nil {
		return nil, err
	}
	var ns []string
	for _, e := range es {
		ns = append(ns, e.Name())
	}
	sort.Strings(ns)
	return ns, nil
}

// copyTreeFS copies the files of src into dst: the image a process crash at this instant leaves.
func copyTreeFS(fsys fs.FileSystem, src, dst string) error {
	if err := fsys.MkdirAll(dst, 0755); err != nil {
		return err
	}
	ns, err := listDirFS(fsys, src)
	if err != nil {
		return err
	}
	for _, n := range ns {
		b, err := readFileFS(fsys, filepath.Join(src, n))
		if err != nil {
			return err
		}
		if err := writeFileFS(fsys, filepath.Join(dst, n), b); err != nil {
			return err
		}
	}
	return nil
}

func removeTreeFS(fsys fs.FileSystem, dir string) {
	ns, err := listDirFS(fsys, dir)
	if err != nil {
		return
	}
	for _, n := range ns {
		_ = fsys.Remove(filepath.Join(dir, n))
	}
}
