package harness

import (
	"encoding/binary"
	"fmt"
	"hash/crc32"
	"path/filepath"
	"sort"
	"strconv"
	"strings"
)

// An independent validating reader of the documented on-disk format version 2
// (docs/design.md): a 512-byte file header carrying a signature and the format version,
// followed by records
//
//	key size (2B LE) | record type (1 bit) + value size (31 bits, 4B LE) | key | value | CRC32-IEEE (4B LE)
//
// where the checksum covers everything of the record before it. Segment files are named
// "<id, 5 digits>-<sequence id>.psg" and replayed in sequence-id order.

const (
	walHeaderSize = 512
	walVersion    = 2
)

var walSignature = []byte{'p', 'o', 'g', 'r', 'e', 'b', 0x0e, 0xfd}

type WalRecord struct {
	Off    int64
	Delete bool
	Key    []byte
	Value  []byte
	Len    int
}

// DecodeSegment returns the records of the longest valid prefix, the length of that prefix in
// bytes (including the header) and a description of why decoding stopped ("" = clean end).
func DecodeSegment(data []byte) (recs []WalRecord, validLen int64, why string) {
	if len(data) < walHeaderSize {
		return nil, 0, "short header"
	}
	if string(data[:8]) != string(walSignature) {
		return nil, 0, "bad signature"
	}
	if binary.LittleEndian.Uint32(data[8:12]) != walVersion {
		return nil, 0, "bad version"
	}
	off := int64(walHeaderSize)
	for {
		rest := data[off:]
		if len(rest) == 0 {
			return recs, off, ""
		}
		if len(rest) < 6 {
			return recs, off, "partial length fields"
		}
		klen := int64(binary.LittleEndian.Uint16(rest[:2]))
		vraw := binary.LittleEndian.Uint32(rest[2:6])
		del := vraw&(1<<31) != 0
		vlen := int64(vraw &^ (1 << 31))
		total := 6 + klen + vlen + 4
		if int64(len(rest)) < total {
			return recs, off, "truncated record"
		}
		sum := binary.LittleEndian.Uint32(rest[total-4 : total])
		if crc32.ChecksumIEEE(rest[:total-4]) != sum {
			return recs, off, "checksum mismatch"
		}
		recs = append(recs, WalRecord{Off: off, Delete: del, Key: rest[6 : 6+klen], Value: rest[6+klen : 6+klen+vlen], Len: int(total)})
		off += total
	}
}

type SegName struct {
	Path string
	ID   int
	Seq  uint64
}

// ParseSegName parses "<id>-<seq>.psg"; ok is false for any other name.
func ParseSegName(path string) (SegName, bool) {
	base := filepath.Base(path)
	if !strings.HasSuffix(base, ".psg") {
		return SegName{}, false
	}
	parts := strings.SplitN(strings.TrimSuffix(base, ".psg"), "-", 2)
	if len(parts) != 2 || len(parts[0]) != 5 {
		return SegName{}, false
	}
	id, err := strconv.ParseUint(parts[0], 10, 16)
	if err != nil {
		return SegName{}, false
	}
	seq, err := strconv.ParseUint(parts[1], 10, 64)
	if err != nil {
		return SegName{}, false
	}
	return SegName{Path: path, ID: int(id), Seq: seq}, true
}

// ListSegments returns the segment files of dir ordered by sequence id.
func ListSegments(files map[string][]byte, dir string) ([]SegName, error) {
	var segs []SegName
	for p := range files {
		if filepath.Dir(p) != dir || !strings.HasSuffix(p, ".psg") {
			continue
		}
		sn, ok := ParseSegName(p)
		if !ok {
			return nil, fmt.Errorf("segment file with undocumented name %q", p)
		}
		segs = append(segs, sn)
	}
	sort.Slice(segs, func(i, j int) bool { return segs[i].Seq < segs[j].Seq })
	for i := 1; i < len(segs); i++ {
		if segs[i].Seq == segs[i-1].Seq {
			return nil, fmt.Errorf("two segments with sequence id %d", segs[i].Seq)
		}
	}
	return segs, nil
}

// WalReplay folds the valid prefix of every segment, oldest first, into a map.
// strict: any invalid tail is an error (used on files written by a running/closed database).
func WalReplay(files map[string][]byte, dir string, strict bool) (map[string][]byte, error) {
	segs, err := ListSegments(files, dir)
	if err != nil {
		return nil, err
	}
	m := map[string][]byte{}
	for _, sn := range segs {
		recs, _, why := DecodeSegment(files[sn.Path])
		if why != "" && strict {
			return nil, fmt.Errorf("segment %s: %s", sn.Path, why)
		}
		for _, r := range recs {
			if r.Delete {
				delete(m, string(r.Key))
			} else {
				m[string(r.Key)] = r.Value
			}
		}
	}
	return m, nil
}

// FilesOf flattens the files of a SimFS for the decoder (no copies).
func FilesOf(s *SimFS) map[string][]byte {
	m := map[string][]byte{}
	for _, n := range s.FileNames() {
		m[n] = s.FileBytes(n)
	}
	return m
}

// ImageFiles flattens an image.
func ImageFiles(im *Image) map[string][]byte {
	m := map[string][]byte{}
	for n, st := range im.Files {
		m[n] = st.Cur()
	}
	return m
}
