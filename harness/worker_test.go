package harness

import (
	"encoding/json"
	"flag"
	"fmt"
	"math/rand"
	"os"
	"path/filepath"
	"runtime/debug"
	"strconv"
	"strings"
	"testing"
	"time"
)

var (
	flagProp    = flag.String("prop", "", "property id")
	flagTier    = flag.String("tier", "quick", "quick|thorough")
	flagSeed    = flag.Int64("seed", 1, "VERIF_SEED")
	flagWorker  = flag.Int("worker", 0, "worker index")
	flagWorkers = flag.Int("nworkers", 1, "number of workers")
	flagRuns    = flag.Int("runs", 100, "total runs over all workers")
	flagBudget  = flag.Duration("budget", time.Minute, "wall budget of this worker")
	flagOut     = flag.String("out", "", "result json")
	flagReplay  = flag.String("replay", "", "replay file")
	flagReplays = flag.String("replaydir", "/verif/replays", "where replay files go")
	flagDump    = flag.Bool("dump", false, "print per-run digests (determinism self-test)")
	flagOnly    = flag.Int("onlyrun", -1, "execute only this run index (debugging)")
	flagGoldOut = flag.String("goldenout", "", "goldengen: output directory")
	flagGoldBy  = flag.String("goldenwriter", "", "goldengen: commit of the build linked in")
	flagGoldN   = flag.Int("goldenn", 36, "goldengen: number of histories")
)

// WorkerResult is what one worker process reports to the driver.
type WorkerResult struct {
	Prop         string         `json:"prop"`
	Runs         int            `json:"runs"`
	Evaluations  int            `json:"evaluations"`
	NonTrivial   int            `json:"nontrivial"`
	Probes       Probes         `json:"probes"`
	Faults       map[string]int `json:"faults"`
	Hashes       []uint64       `json:"hashes"`
	Steps        int            `json:"steps"`
	SimNanos     int64          `json:"sim_nanos"`
	Inconclusive int            `json:"inconclusive"`
	Violations   []VioReport    `json:"violations"`
	Samples      []interface{}  `json:"samples"`
	WallS        float64        `json:"wall_s"`
	Complete     bool           `json:"complete"`
	Digest       uint64         `json:"digest"`
}

type VioReport struct {
	Class  string `json:"class"`
	Detail string `json:"detail"`
	Replay string `json:"replay"`
	Seed   int64  `json:"seed"`
	Run    int    `json:"run"`
	Ops    int    `json:"ops"`
	Reproduced bool `json:"reproduced"`
}

func runSeed(seed int64, run int) int64 {
	x := uint64(seed)*0x9E3779B97F4A7C15 + uint64(run)*0xBF58476D1CE4E5B9 + 0x94D049BB133111EB
	x ^= x >> 30
	x *= 0xBF58476D1CE4E5B9
	x ^= x >> 27
	x *= 0x94D049BB133111EB
	x ^= x >> 31
	return int64(x & 0x7fffffffffffffff)
}

// safeExecute runs a plan; a panic raised inside the database's own code (first non-runtime frame in
// package pogreb) is a violation of whatever property the run is about - the call did not deliver its
// result. A panic anywhere else is a harness defect and crashes the worker (exit 2 of the check).
func safeExecute(eng Engine, p *Plan) (res *RunResult) {
	defer func() {
		r := recover()
		if r == nil {
			return
		}
		stack := string(debug.Stack())
		if fn := firstUserFrame(stack); strings.HasPrefix(fn, "github.com/akrylysov/pogreb") {
			res = newResult()
			res.V = violf("panic", "the database panicked: %v in %s | %s", r, fn, trimStack(stack))
			return
		}
		panic(fmt.Sprintf("%v\n%s", r, stack))
	}()
	return eng.Execute(p)
}

// firstUserFrame returns the function of the first stack frame below the panic machinery.
func firstUserFrame(stack string) string {
	lines := strings.Split(stack, "\n")
	seenPanic := false
	for _, l := range lines {
		if strings.HasPrefix(l, "\t") || strings.HasPrefix(l, "goroutine ") || l == "" {
			continue
		}
		if strings.HasPrefix(l, "panic(") {
			seenPanic = true
			continue
		}
		if !seenPanic || strings.HasPrefix(l, "runtime.") || strings.HasPrefix(l, "runtime/") {
			continue
		}
		return l
	}
	return ""
}

// TestGoldenGen writes the golden corpus of C18 with the build this binary was linked against.
func TestGoldenGen(t *testing.T) {
	if *flagGoldOut == "" {
		t.Skip("no -goldenout")
	}
	w, s, err := GenerateGolden(*flagGoldOut, *flagGoldBy, *flagGoldN)
	if err != nil {
		t.Fatal(err)
	}
	fmt.Printf("goldengen: %d histories written, %d skipped\n", w, s)
}

func TestWorker(t *testing.T) {
	if *flagProp == "" {
		t.Skip("no -prop")
	}
	debug.SetGCPercent(400)
	eng := engineFor(*flagProp, t)
	if eng == nil {
		t.Fatalf("no engine for %s", *flagProp)
	}
	if *flagReplay != "" {
		p, err := LoadPlan(*flagReplay)
		if err != nil {
			t.Fatal(err)
		}
		r := safeExecute(eng, p)
		if _, real := eng.(raceEngine); real {
			tries := 20
			if n, err := strconv.Atoi(os.Getenv("VERIF_REPLAY_TRIES")); err == nil {
				tries = n
			}
			for try := 0; try < tries && r.V == nil; try++ {
				r = safeExecute(eng, p)
			}
		}
		if r.V != nil {
			fmt.Printf("REPLAY-VIOLATION property=%s class=%s detail=%s\n", p.Property, r.V.Class, r.V.Detail)
			if p.Class != "" && r.V.Class != p.Class {
				fmt.Printf("REPLAY-MISMATCH recorded class %s\n", p.Class)
			}
		} else {
			fmt.Printf("REPLAY-CLEAN property=%s\n", p.Property)
		}
		return
	}
	start := time.Now()
	wr := &WorkerResult{Prop: *flagProp, Probes: Probes{}, Faults: map[string]int{}}
	thorough := *flagTier == "thorough"
	hashes := map[uint64]bool{}
	classes := map[string]bool{}
	wr.Complete = true
	for run := *flagWorker; run < *flagRuns; run += *flagWorkers {
		if time.Since(start) > *flagBudget {
			wr.Complete = false
			break
		}
		if *flagOnly >= 0 && run != *flagOnly {
			continue
		}
		rs := runSeed(*flagSeed, run)
		rng := rand.New(rand.NewSource(rs))
		plan := eng.Generate(rng, *flagProp, thorough)
		plan.Seed = rs
		res := safeExecute(eng, plan)
		wr.Runs++
		wr.Evaluations += res.Evaluations
		if res.NonTrivial {
			wr.NonTrivial++
		}
		wr.Probes.Add(res.Probes)
		for k, v := range res.Faults {
			wr.Faults[k] += v
		}
		for _, h := range res.Hashes {
			hashes[h] = true
			wr.Digest ^= h * 0x9E3779B97F4A7C15
		}
		wr.Steps += res.Steps
		wr.SimNanos += res.SimNanos
		wr.Inconclusive += res.Inconclusive
		if *flagDump {
			var d uint64
			for _, h := range res.Hashes {
				d ^= h * 0x9E3779B97F4A7C15
			}
			v := ""
			if res.V != nil {
				v = res.V.Class
			}
			fmt.Printf("RUN %d seed=%d digest=%016x evals=%d steps=%d v=%s\n", run, rs, d, res.Evaluations, res.Steps, v)
		}
		if len(wr.Samples) < 2 && res.V == nil {
			if res.Sample != nil {
				wr.Samples = append(wr.Samples, res.Sample)
			} else {
				wr.Samples = append(wr.Samples, planSample(plan))
			}
		}
		if res.V != nil {
			if classes[res.V.Class] {
				continue
			}
			classes[res.V.Class] = true
			plan.Class, plan.Detail = res.V.Class, res.V.Detail
			rep := VioReport{Class: res.V.Class, Detail: res.V.Detail, Seed: rs, Run: run}
			if _, real := eng.(raceEngine); real {
				// executions on real threads are not replayable schedule-exactly: no minimisation; the seeded
				// workload is re-run until the same report shows again
				rep.Reproduced = strings.HasPrefix(res.V.Class, "data-race") // a race report carries both stacks: its own witness
				for try := 0; try < 10 && !rep.Reproduced; try++ {
					if r := safeExecute(eng, plan); r.V != nil && r.V.Class == res.V.Class {
						rep.Reproduced = true
					}
				}
				rep.Ops = plan.NumOps()
				os.MkdirAll(*flagReplays, 0755)
				path := filepath.Join(*flagReplays, fmt.Sprintf("%s-%d-%d.json", *flagProp, *flagSeed, run))
				if err := plan.Save(path); err != nil {
					t.Fatal(err)
				}
				rep.Replay = path
				wr.Violations = append(wr.Violations, rep)
				if len(wr.Violations) >= 6 {
					wr.Complete = false
					break
				}
				continue
			}
			min := Minimise(eng, plan, res.V.Class, 20*time.Second)
			r2 := safeExecute(eng, min)
			if r2.V != nil && r2.V.Class == res.V.Class {
				min.Class, min.Detail = r2.V.Class, r2.V.Detail
				rep.Detail = r2.V.Detail
				rep.Reproduced = true
			} else {
				min = plan
				r3 := safeExecute(eng, plan)
				rep.Reproduced = r3.V != nil && r3.V.Class == res.V.Class
			}
			rep.Ops = min.NumOps()
			os.MkdirAll(*flagReplays, 0755)
			path := filepath.Join(*flagReplays, fmt.Sprintf("%s-%d-%d.json", *flagProp, *flagSeed, run))
			if err := min.Save(path); err != nil {
				t.Fatal(err)
			}
			rep.Replay = path
			wr.Violations = append(wr.Violations, rep)
			if len(wr.Violations) >= 4 {
				wr.Complete = false
				break
			}
		}
	}
	for h := range hashes {
		wr.Hashes = append(wr.Hashes, h)
	}
	wr.WallS = time.Since(start).Seconds()
	if *flagOut != "" {
		b, _ := json.Marshal(wr)
		if err := os.WriteFile(*flagOut, b, 0644); err != nil {
			t.Fatal(err)
		}
	}
}

func planSample(p *Plan) interface{} {
	ops := []string{}
	for ti, t := range p.Tasks {
		for i, o := range t {
			if i >= 12 {
				ops = append(ops, "...")
				break
			}
			ops = append(ops, fmt.Sprintf("t%d:%s", ti, o.String()))
		}
	}
	return map[string]interface{}{"seed": p.Seed, "cfg": p.Cfg, "nkeys": len(p.Keys), "nops": p.NumOps(), "first_ops": ops}
}

func engineFor(prop string, t *testing.T) Engine {
	switch prop {
	case "C01", "C02":
		return seqEngine{}
	case "C16":
		return multiEngine{engines: map[string]Engine{"seq": seqEngine{}, "xfs": xfsEngine{"C16"}}, order: []string{"seq", "xfs"}, weights: []int{5, 1}}
	case "C03":
		return crashEngine{}
	case "C09":
		return multiEngine{engines: map[string]Engine{"crash": crashEngine{}, "compact-closed": compactEngine{t: t, closed: true}}, order: []string{"crash", "compact-closed"}, weights: []int{3, 1}}
	case "C04":
		return multiEngine{engines: map[string]Engine{"crash": crashEngine{}, "compact": compactEngine{t: t, afterRecovery: true}}, order: []string{"crash", "compact"}, weights: []int{4, 1}}
	case "C08", "C19":
		return damageEngine{}
	}
	return extraEngineFor(prop, t)
}
