#!/usr/bin/env python3
"""usage: lib/importmut.py <prop> <n> <slug> <initial: caught|missed> <final: caught|missed|equivalent> "<needs>" ["<note>"]
Copies an independently written seeded change from /tmp/mutwt/<prop>-out/<n> to /verif/seeded/<id>/ with meta.json."""
import json, os, re, shutil, sys
prop, n, slug, initial, final, needs = sys.argv[1:7]
note = sys.argv[7] if len(sys.argv) > 7 else ""
src = os.environ.get("MUTROOT", "/tmp/mutwt") + "/%s-out/%s" % (prop, n)
ident = "A%s-%s-%s-%s" % (os.environ.get("MUTWAVE", ""), prop, n, slug)
dst = "/verif/seeded/" + ident
os.makedirs(dst, exist_ok=True)
for f in os.listdir(src):
    p = os.path.join(src, f)
    if os.path.isdir(p):
        shutil.copytree(p, os.path.join(dst, f), dirs_exist_ok=True)
    else:
        shutil.copy(p, dst)
log = "/tmp/mutres/%s-%s-%s.log" % (prop, n, prop)
ran = []
if os.path.exists(log):
    for l in open(log, errors="replace"):
        if re.match(r"^(demo|suite|VIOLATION|SUMMARY|trymut)", l):
            ran.append(l.strip()[:240])
meta = {
    "id": ident, "property": prop, "author": "independent sub-agent given only the property text and a scratch worktree",
    "needs_to_manifest": needs,
    "confirmed": "lib/vetmut.sh (scratch worktree of /repo HEAD): patch applies and builds, unedited suite passes with it, demonstration fails with it and passes without it",
    "check_run": "lib/trymut.sh %s/patch.diff %s (quick tier, seed 1, scratch worktree)" % (dst, prop),
    "first_result": initial, "result": final, "note": note, "log_excerpt": ran[:8],
}
json.dump(meta, open(os.path.join(dst, "meta.json"), "w"), indent=1)
print(ident)
