#!/usr/bin/env python3
"""Regenerates /verif/MANIFEST.json from lib/props.py (run after editing props.py)."""
import json, os, sys, subprocess
here = os.path.dirname(os.path.abspath(__file__))
sys.path.insert(0, here)
from props import PROPS, NOT_APPLICABLE, TEXT, UNCLAIMED
verif = os.path.dirname(here)
commits = subprocess.run(["git", "-C", "/repo", "log", "--format=%H %s"], stdout=subprocess.PIPE, text=True).stdout.splitlines()
hooks = [c.split()[0] for c in commits if c.split(" ", 1)[1].startswith("verif hook")]
checks = []
for pid in sorted(PROPS):
    sp = PROPS[pid]
    t = TEXT[pid]
    checks.append({
        "property_id": pid,
        "quick_cmd": "./check %s quick" % pid,
        "thorough_cmd": "./check %s thorough" % pid,
        "evidence_file": "/verif/evidence/%s.json" % pid,
        "replay_cmd_template": "./check %s replay {path}" % pid,
        "engine": t["engine"],
        "level_claimed": {"category": sp["level"], "text": t["level_text"], "design_ref": t["design_ref"]},
        "level_note": t["level_note"],
        "technique": t["technique"],
    })
m = {
    "version": 1,
    "setup_cmd": "./check setup",
    "hooks": {
        "guard": "verif",
        "enable": "go build tag `verif` (go1.26.8 test -c -tags verif ...); locks/timers/randomness are instrumented in a scratch copy of /repo at check time by tools/instrument, not in /repo",
        "baseline_off_cmd": "cd /repo && go test -vet=off -count=1 -timeout 25m ./...",
        "source_commits": hooks,
        "add_only": True,
    },
    "engines": [
        {"name": "sim", "path": "/verif/sim", "kind_free_text": "deterministic scheduler (testing/synctest bubble, seeded choice tape), scheduler-owned sync.Mutex/RWMutex, simulated tickers and clock, hash-seed seam", "serves_properties": sorted(PROPS)},
        {"name": "harness", "path": "/verif/harness", "kind_free_text": "SimFS (journalled simulated disk, process-crash and power-loss image construction, personalities), reference model, independent WAL decoder and index walker, per-property engines, ddmin minimiser, replay", "serves_properties": sorted(PROPS)},
        {"name": "instrument", "path": "/verif/tools/instrument", "kind_free_text": "go/ast rewriter applied to a scratch copy of /repo at check time: sync/time/crypto-rand imports -> drop-ins, yields between the system calls of lock acquisition/release", "serves_properties": sorted(PROPS)},
    ],
    "checks": checks,
    "not_applicable": NOT_APPLICABLE + [{"property_id": k, "reason": v} for k, v in sorted(UNCLAIMED.items())],
    "notes": "All checks rebuild an instrumented scratch copy of /repo's working tree (mktemp, removed on exit) with go1.26.8 and GOFLAGS=-mod=mod GOPROXY=off. VERIF_SEED selects the seed (default 1), VERIF_WORKERS the number of worker processes (default 16). Exit 2 = infrastructure trouble (never a VIOLATION line). Known findings and repaired defects: /verif/known_findings.json (witness files under /verif/findings are re-executed by every run of their check). The entries under not_applicable are properties without a registered check; their reasons say so - none of them is outside the reach of the technique. lib/trymut.sh <patch> <Cxx> runs a check against a deliberately broken scratch worktree (patches under /verif/seeded).",
}
json.dump(m, open(os.path.join(verif, "MANIFEST.json"), "w"), indent=1)
print("MANIFEST.json written:", len(checks), "checks,", len(NOT_APPLICABLE), "not applicable")
