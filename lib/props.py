"""Per-property parameters of the checks (runs, budgets, evidence texts)."""

REAL_SEQ = ["package pogreb (db, index, bucket, datalog, segment, compaction, recovery, backup, iterator, gobfile, header, file)",
            "internal/hash (murmur)", "internal/errors", "fs.Sub"]
STUB_SEQ = ["file system (SimFS, in-memory, inode based, journalled)", "crypto/rand (hash seed chosen by the simulator)",
            "sync.Mutex/RWMutex and time.Ticker are drop-ins that delegate to the real ones when no scheduler is active"]
STUB_SCHED = ["file system (SimFS)", "crypto/rand", "sync.Mutex / sync.RWMutex (scheduler-owned, Go writer-preference semantics)",
              "time.Ticker (scheduler-delivered ticks on a simulated clock)"]

PROPS = {
    "C01": dict(
        level="exploration",
        runs=dict(quick=24000, thorough=400000), budget_s=dict(quick=150, thorough=1500),
        rule="one evaluation = one seeded sequential history (10-200 API calls; thorough 10-400) of Put/Delete/Get/GetAppend/Has/Count/Items/Sync/Compact "
             "on SimFS with a simulator-chosen hash seed and an adversarial key family (tiny, low-bit colliders, full 32-bit colliders, length boundaries, mixed), "
             "compared call by call with a reference map, plus structural index walk and independent WAL replay every 16 calls; "
             "distinct_nontrivial = number of distinct (model digest xor segment bytes digest) states seen at checkpoints of histories that rolled a segment over, split the index or allocated an overflow bucket",
        real=REAL_SEQ, stub=STUB_SEQ,
        must_reach=dict(quick=["index_split", "overflow_bucket_allocated", "segment_removed", "hole_before_overflow", "split_pointer_mid_level"],
                        thorough=["index_split", "overflow_bucket_allocated", "segment_removed", "hole_before_overflow", "split_pointer_mid_level"]),
        assumptions=["single task, no faults: this is the simulator's degenerate configuration (DESIGN.md section 5)",
                     "the three shipped FileSystem implementations are compared in C17; here the file system is SimFS with randomised legal personalities"],
    ),
    "C02": dict(
        level="exploration",
        runs=dict(quick=16000, thorough=250000), budget_s=dict(quick=150, thorough=1500),
        rule="one evaluation = one seeded history split into 1-6+ sessions by Close/Open at arbitrary positions; after every reopen: no recovery at the logger and FS seams, "
             "full contents/Count/scan == model, index.pmt agrees with a structural walk of the index files, segment files unchanged by empty sessions; "
             "distinct_nontrivial = distinct (model, segment bytes) states at checkpoints of histories with rollover/split/overflow",
        real=REAL_SEQ, stub=STUB_SEQ,
        must_reach=dict(quick=["clean_reopen", "index_split", "overflow_bucket_allocated", "segment_removed"], thorough=["clean_reopen", "index_split", "overflow_bucket_allocated", "segment_removed"]),
        assumptions=["cross-FS reopen (fs.OS <-> fs.OSMMap) is exercised by the C17 differential engine"],
    ),
    "C16": dict(
        level="exploration",
        runs=dict(quick=6000, thorough=60000), budget_s=dict(quick=150, thorough=1500),
        rule="one evaluation = one seeded history over keys of lengths {0,1,2,255,256,257,1000,4090,65534,65535} and values around sector/buffer/segment-capacity boundaries (incl. records larger than a whole segment), "
             "with restarts, plus limit probes (65536+ byte keys incl. ones whose 16-bit-truncated length and prefix equal a stored key; a 512 MiB+1 value); "
             "a rejected Put must make zero mutating FS calls; distinct_nontrivial = distinct (model, segment bytes) states at checkpoints",
        real=REAL_SEQ, stub=STUB_SEQ,
        must_reach=dict(quick=["limit_probe_put-longkey", "limit_probe_put-longkey-alias", "limit_probe_get-longkey", "limit_probe_put-bigvalue"], thorough=[]),
        assumptions=["a full 512 MiB value is written only by the thorough tier"],
        mem_gb=8,
    ),
}
