"""Per-property parameters of the checks (runs, budgets, evidence texts)."""

REAL_SEQ = ["package pogreb (db, index, bucket, datalog, segment, compaction, recovery, backup, iterator, gobfile, header, file)",
            "internal/hash (murmur)", "internal/errors", "fs.Sub"]
STUB_SEQ = ["file system (SimFS, in-memory, inode based, journalled)", "crypto/rand (hash seed chosen by the simulator)",
            "sync.Mutex/RWMutex and time.Ticker are drop-ins that delegate to the real ones when no scheduler is active"]
STUB_SCHED = ["file system (SimFS)", "crypto/rand", "sync.Mutex / sync.RWMutex (scheduler-owned, Go writer-preference semantics)",
              "time.Ticker (scheduler-delivered ticks on a simulated clock)"]

PROPS = {
    "C01": dict(
        level="exploration",
        runs=dict(quick=24000, thorough=400000), budget_s=dict(quick=150, thorough=1500),
        rule="one evaluation = one seeded sequential history (10-200 API calls; thorough 10-400) of Put/Delete/Get/GetAppend/Has/Count/Items/Sync/Compact "
             "on SimFS with a simulator-chosen hash seed and an adversarial key family (tiny, low-bit colliders, full 32-bit colliders, length boundaries, mixed), "
             "compared call by call with a reference map, plus structural index walk and independent WAL replay every 16 calls; "
             "distinct_nontrivial = number of distinct (model digest xor segment bytes digest) states seen at checkpoints of histories that rolled a segment over, split the index or allocated an overflow bucket",
        real=REAL_SEQ, stub=STUB_SEQ,
        must_reach=dict(quick=["index_split", "overflow_bucket_allocated", "segment_removed", "hole_before_overflow", "split_pointer_mid_level"],
                        thorough=["index_split", "overflow_bucket_allocated", "segment_removed", "hole_before_overflow", "split_pointer_mid_level"]),
        assumptions=["single task, no faults: this is the simulator's degenerate configuration (DESIGN.md section 5)",
                     "the three shipped FileSystem implementations are compared in C17; here the file system is SimFS with randomised legal personalities"],
    ),
    "C02": dict(
        level="exploration",
        runs=dict(quick=16000, thorough=250000), budget_s=dict(quick=150, thorough=1500),
        rule="one evaluation = one seeded history split into 1-6+ sessions by Close/Open at arbitrary positions; after every reopen: no recovery at the logger and FS seams, "
             "full contents/Count/scan == model, index.pmt agrees with a structural walk of the index files, segment files unchanged by empty sessions; "
             "distinct_nontrivial = distinct (model, segment bytes) states at checkpoints of histories with rollover/split/overflow",
        real=REAL_SEQ, stub=STUB_SEQ,
        must_reach=dict(quick=["clean_reopen", "index_split", "overflow_bucket_allocated", "segment_removed"], thorough=["clean_reopen", "index_split", "overflow_bucket_allocated", "segment_removed"]),
        assumptions=["cross-FS reopen (fs.OS <-> fs.OSMMap) is exercised by the C17 differential engine"],
    ),
    "C16": dict(
        level="exploration",
        runs=dict(quick=6000, thorough=60000), budget_s=dict(quick=150, thorough=1500),
        rule="one evaluation = one seeded history over keys of lengths {0,1,2,255,256,257,1000,4090,65534,65535} and values around sector/buffer/segment-capacity boundaries (incl. records larger than a whole segment), "
             "with restarts, plus limit probes (65536+ byte keys incl. ones whose 16-bit-truncated length and prefix equal a stored key; a 512 MiB+1 value); "
             "a rejected Put must make zero mutating FS calls; distinct_nontrivial = distinct (model, segment bytes) states at checkpoints",
        real=REAL_SEQ, stub=STUB_SEQ,
        must_reach=dict(quick=["limit_probe_put-longkey", "limit_probe_put-longkey-alias", "limit_probe_get-longkey", "limit_probe_put-bigvalue", "max_value_roundtrip"], thorough=["max_value_roundtrip"]),
        assumptions=["a value of exactly the 512 MiB limit is written by one worker only (about 3 GiB of memory): once in the quick tier, in every 40th run of that worker in the thorough tier; "
                     "it is read back, taken through an unclean shutdown + recovery (with a record after it), overwritten and compacted"],
        mem_gb=16, big_worker=True,
    ),
}

CRASH_ASSUME = ["process-crash model exactly as in the property's quantifier: returned FS calls applied, in-flight call not applied or (data write) applied up to a 512-aligned offset inside the range; create/rename/remove atomic",
                "single writer, so per-key write order is program order and the oracle is exact"]
PROPS["C03"] = dict(
    level="fault_enumeration",
    runs=dict(quick=1600, thorough=40000), budget_s=dict(quick=170, thorough=1700),
    rule="one run = one seeded single-writer history (3-40 calls; thorough 3-80) of Put/Delete/Compact/Sync/Close/Open/reads recorded once in the SimFS journal; "
         "one evaluation = one crash point of it (every journal index, every 512-aligned tear of every write; histories with > 400 points are sampled), "
         "i.e. one disk image recovered by the real Open and read back completely (Get/Has per key, Count, full scan, index walk, independent WAL replay); "
         "distinct_nontrivial = distinct (image digest, point class) pairs, point class = (API op, FS op kind, file kind, torn?)",
    real=REAL_SEQ, stub=STUB_SEQ, assumptions=CRASH_ASSUME,
    must_reach=dict(quick=["torn_write", "recovery_ran", "segment_truncated", "pt:compact/remove/segment/pcrash", "pt:put/create/segment/pcrash", "pt:close/unlock/lock/pcrash"],
                    thorough=["torn_write", "recovery_ran", "segment_truncated"]),
)
PROPS["C04"] = dict(
    level="fault_enumeration",
    runs=dict(quick=2400, thorough=50000), budget_s=dict(quick=170, thorough=1700),
    rule="one run = a chain of 2-4 epochs (history, crash point); each epoch starts with the recovering Open on the previous crash image (its journal is recorded, so crash points lie inside recovery too); "
         "one evaluation = one crash image of some epoch recovered and read back (up to 60 sampled points per epoch, continuation point biased to inside-recovery and torn writes); "
         "oracle accumulates over the chain; the continuation image is recovered twice under different hash seeds and must give equal contents; "
         "distinct_nontrivial = distinct (image digest, point class) pairs",
    real=REAL_SEQ, stub=STUB_SEQ, assumptions=CRASH_ASSUME,
    must_reach=dict(quick=["torn_write", "chain_epochs", "segment_truncated", "pt:open/truncate/segment/pcrash", "pt:open/rename/index/pcrash"], thorough=["torn_write", "chain_epochs"]),
)

PL_ASSUME = ["power-loss model exactly as in the property's quantifier: directory operations durable and ordered as issued; file data and length volatile until Sync on that file; "
             "at the failure each file = content at its last Sync + an in-order prefix of later writes/truncations, last write cut at a 512-aligned offset",
             "prefix choices per instant are the systematic families (all lost, all kept, exactly one file loses/keeps everything) plus two seeded random prefix vectors; they are sampled, not enumerated",
             "single writer"]
PROPS["C06"] = dict(
    level="fault_enumeration",
    runs=dict(quick=2400, thorough=50000), budget_s=dict(quick=170, thorough=1700),
    rule="one run = a chain of 1-3 epochs of single-writer histories with Sync calls (explicit mode) or sync-after-every-write, rollovers and compactions; earlier epochs end in a process crash or a power loss, the last in a power loss; "
         "one evaluation = one power-loss image (instant x prefix family) recovered by the real Open and read back; per key the value must be the one at the last completed sync point or one written later; "
         "distinct_nontrivial = distinct (image digest, point class, family) triples",
    real=REAL_SEQ, stub=STUB_SEQ, assumptions=PL_ASSUME,
    must_reach=dict(quick=["ploss-one-file-loses-all", "ploss-random-prefixes", "segment_removed", "chain_epochs", "pt:compact/remove/segment/ploss-all-pending-lost", "pt:sync/sync/segment/ploss-all-pending-lost"], thorough=["ploss-one-file-loses-all"]),
)
PROPS["C09"] = dict(
    level="fault_enumeration",
    runs=dict(quick=2400, thorough=50000), budget_s=dict(quick=170, thorough=1700),
    rule="one run = a seeded history (any sync mode, rollover, compaction, earlier clean restarts) ending in Close -> Open; one evaluation = one power-loss image taken at an instant between the return of that Close and the completion of the next Open "
         "(every FS call of the Open, prefix families as in C06), recovered and read back; contents must equal the closed contents exactly; "
         "distinct_nontrivial = distinct (image digest, point class, family) triples",
    real=REAL_SEQ, stub=STUB_SEQ, assumptions=PL_ASSUME,
    must_reach=dict(quick=["ploss-all-pending-lost", "ploss-random-prefixes", "pt:open/create/lock/ploss-all-pending-lost", "pt:end/ploss-all-pending-lost"], thorough=["ploss-all-pending-lost"]),
)

# ---------------------------------------------------------------------------------------------
# Texts for MANIFEST.json

def _t(engine, technique, level_text, level_note, design_ref):
    return dict(engine=engine, technique=technique, level_text=level_text, level_note=level_note, design_ref=design_ref)

TEXT = {
    "C01": _t("harness", "seeded model-based simulation: single task on SimFS with simulator-chosen hash seed, reference map + structural index walk + independent WAL replay",
              "Seeded exploration of sequential histories over adversarial key sets (hash collisions engineered through the randomness seam) and segment/compaction settings, every call compared with a reference map. Sampling, not proof; the fault-free single-task configuration of the simulator.",
              "Trusted: reference map, own murmur3, decoder written from docs/design.md. No faults, no concurrency (degenerate simulator configuration, DESIGN.md section 5).", "DESIGN.md 4/C01, 5"),
    "C02": _t("harness", "seeded simulation with Close/Open as generated operations; recovery detected at the logger and file-system seams",
              "Seeded exploration of histories split into sessions at arbitrary positions; after each reopen full comparison with the model, 'no recovery happened' observed at the FS/log seams, persisted index metadata cross-checked by a structural walk.",
              "Trusted: SimFS semantics, reference map. Cross-FS reopen is covered by C17.", "DESIGN.md 4/C02"),
    "C03": _t("harness", "deterministic simulation with fault injection: journalled simulated disk, record once / crash at every FS call and every 512-aligned tear, real recovery on each image",
              "Every crash point (all journal indices and all sector-aligned tears) of thousands of seeded histories is turned into a disk image, recovered by the real Open and read back completely against the exact per-key oracle (acked state, plus all-or-none of the single in-flight call).",
              "Crash points are enumerated exhaustively within each sampled history (sampled above 400 points); histories are sampled. Process-crash model as stated in the property.", "DESIGN.md 2.3, 4/C03"),
    "C04": _t("harness", "deterministic simulation with fault injection: chains of (session, crash) epochs incl. crashes inside the recovering Open; recover-twice equality",
              "Seeded chains of up to 4 epochs; each epoch's journal includes the recovering Open, so crashes land inside recovery and in sessions that followed a recovery; oracle accumulated over the chain. 1 run in 5: a concurrent session (writers, compactor, background worker on simulated tickers) that starts with the recovering Open of a crashed image under the seeded scheduler, judged like C05 (linearizability + crash points inside compaction).",
              "Chains and continuation points are sampled (bias: inside recovery, torn writes). Process-crash model as stated.", "DESIGN.md 4/C04, 12.4 (wave 6)"),
    "C06": _t("harness", "deterministic simulation with fault injection: power-loss disk model (per-file synced image + ordered pending operations), systematic and seeded prefix families at every instant",
              "Power-loss images at sampled instants of seeded histories with Sync / sync-after-write, rollover, compaction and earlier crash+recovery epochs; per key the recovered value must be the synced one or a later written one.",
              "Instants and surviving-prefix vectors are sampled (systematic families always included). Power-loss model as stated in the property (in-order prefixes, durable ordered directory operations).", "DESIGN.md 2.3, 4/C06"),
    "C09": _t("harness", "deterministic simulation with fault injection: power-loss images at every instant from the return of Close through the next Open",
              "For seeded histories ending in Close -> Open, every FS call of the following Open (and the instant right after Close) is a power-loss point under the prefix families; recovered contents must equal the closed contents exactly. 1 run in 4: the session before the Close is concurrent (writers, compactor and readers under the seeded scheduler), main closes it, the next Open is executed and the same power-loss families are judged at every instant from the return of Close on.",
              "Histories, schedules and prefix vectors sampled; instants after Close enumerated. Power-loss model as stated.", "DESIGN.md 4/C09, 12.4 (wave 6)"),
    "C16": _t("harness", "seeded model-based simulation over size classes with restart; file-system seam observes that a rejected Put touches nothing",
              "Seeded exploration over boundary key/value lengths (0..65535 keys, values around sector/buffer/segment boundaries, records larger than a segment) with restarts, plus over-limit probes checked for atomic rejection at the FS seam.",
              "Input-space sampling at boundary classes; the limit-enforcement clause is a pure function of the input (DESIGN.md section 5). A full 512 MiB value only in the thorough tier.", "DESIGN.md 4/C16, 5"),
}

NOT_APPLICABLE = []

# Properties for which no check is registered. None of them is "not applicable" to the technique (DESIGN.md 5):
# their engines were planned (DESIGN.md 4) and not built in the time available. Listed in MANIFEST.not_applicable
# because that is where the schema puts "properties you do not claim, each with a one-line reason".
UNCLAIMED = {
}

PROPS["C08"] = dict(
    level="fault_enumeration",
    runs=dict(quick=6000, thorough=120000), budget_s=dict(quick=170, thorough=1700),
    rule="one run = one seeded history producing an unclean multi-segment image; one evaluation = one damaged copy of it (zeros, truncation inside a record, single-bit flips in key/value/CRC - exhaustive over every bit of the last record when it is <= 64 bytes -, "
         "length-field flips, bounded garbage, a well-formed record after a damaged one, two segments damaged at once, damage in non-newest segments) recovered by the real Open and compared with an independent decoder of the documented format "
         "(contents, truncated lengths, no never-written key); distinct_nontrivial = distinct (damaged image digest, damage kind)",
    real=REAL_SEQ, stub=STUB_SEQ,
    assumptions=["claimed lengths in injected garbage are capped at 1 MiB here; unbounded claims are C19's subject", "the decoder is written from docs/design.md, independent of segment.go"],
    must_reach=dict(quick=["zeros", "truncate", "bitflip", "lenflip", "garbage", "valid-after-invalid", "two-segments", "multi_segment_image", "exhaustive_bitflip_record", "segment_truncated_to_valid_prefix"],
                    thorough=["bitflip", "two-segments"]),
)
PROPS["C19"] = dict(
    level="fault_enumeration",
    runs=dict(quick=3000, thorough=60000), budget_s=dict(quick=170, thorough=1700),
    rule="one run = one seeded unclean image; one evaluation = the image with a 6-byte record header (key size in {0,1,255,65535,random}, value size in {0,1,4096,2^20,2^24,2^29-1,2^29,2^30,2^31-1,random}, both record types) "
         "plus 0..5000 further bytes appended to the newest or an older segment (sometimes two), recovered by the real Open; measured: runtime.MemStats.TotalAlloc delta across Open <= 8 x bytes of all segments + 4 MiB, "
         "largest read request - bytes remaining in the file <= 64 KiB, and the C08 oracle; distinct_nontrivial = distinct damaged images",
    real=REAL_SEQ, stub=STUB_SEQ,
    assumptions=["allocation is measured process-wide around Open in a worker that runs nothing else", "worker address space limited by RLIMIT_AS so a violation is a clean failure"],
    must_reach=dict(quick=["garbage-header", "multi_segment_image"], thorough=["garbage-header"]),
    mem_gb=10,
)
TEXT["C08"] = _t("harness", "deterministic simulation with fault injection: damaged segment tails injected into crash images on the simulated disk, oracle = independent decoder of the documented format",
                 "Seeded unclean images with systematic tail damage (incl. exhaustive single-bit flips of small records) recovered by the real code and compared with an independent validating reader: contents, per-segment truncation, continuation with later segments.",
                 "Damage space sampled by kind; bit flips exhaustive per chosen small record. Trusted: the decoder written from docs/design.md.", "DESIGN.md 4/C08")
TEXT["C19"] = _t("harness", "deterministic simulation with fault injection: garbage record headers at segment tails; allocation and read-request size observed across the recovering Open",
                 "Seeded unclean images whose tails claim arbitrary key/value lengths; the recovering Open must allocate and request reads in proportion to the bytes present, and discard the tail as in C08.",
                 "Header values sampled at boundaries and at random; measurement via runtime.MemStats and the FS seam.", "DESIGN.md 4/C19")

SCHED_ASSUME = ["interleavings are explored at the granularity of lock acquisitions (every Lock/RLock/TryLock of DB.mu, maintenanceMu, ItemIterator.mu is a scheduling point) and, in runs with FS yields, of every file-system call; two memory accesses between two such points are never separated",
                "schedules are sampled by a seeded PRNG (uniform or sticky), not enumerated"]
PROPS["C07"] = dict(
    level="exploration",
    runs=dict(quick=6000, thorough=150000), budget_s=dict(quick=170, thorough=1700), gomaxprocs=4,
    rule="one evaluation = one seeded concurrent run: 2-5 client tasks (20-120 calls; thorough up to 180) of Put/Delete/Get/GetAppend/Has on 2-8 keys with unique values, alongside Compact/Sync/Backup/Count/Items/FileSize tasks and, in half the runs, the real background worker driven by simulated ticks; "
         "every interleaving decision made by the seeded scheduler; history stamped with the scheduler's event counter and checked with porcupine (register-with-delete per key), Count against linearization bounds, scans for truthfulness/completeness; "
         "distinct_nontrivial = number of distinct schedule digests (hash of the sequence of (task, lock/FS operation) grants)",
    real=REAL_SEQ + ["the database's own background worker goroutine", "sync.WaitGroup, context, channels, select (real, inside a testing/synctest bubble)"], stub=STUB_SCHED, assumptions=SCHED_ASSUME,
    must_reach=dict(quick=["tick", "compacted_segments", "segment_removed", "context_switches", "lin_ops_checked"], thorough=["tick", "compacted_segments"]),
)
TEXT["C07"] = _t("sim+harness", "deterministic simulation: seeded scheduler owning every lock acquisition (and optionally every FS call) of the unmodified DB code incl. its background worker; histories checked with porcupine",
                 "Seeded search over interleavings of concurrent clients, compaction, sync, backup, scans and the background worker; each recorded history must linearize against a per-key register-with-delete model; Illegal = violation, Unknown = counted as inconclusive.",
                 "Schedules sampled; scheduling points = lock operations (+ FS calls in half the runs). porcupine v1.3.0 trusted. Data races proper are C10's REAL-mode clause.", "DESIGN.md 2.2, 4/C07")

REAL_SCHED = REAL_SEQ + ["the database's own background worker goroutine", "sync.WaitGroup, context, channels, select (real, inside a testing/synctest bubble)"]
PROPS["C05"] = dict(
    level="exploration",
    runs=dict(quick=4000, thorough=80000), budget_s=dict(quick=170, thorough=1700), gomaxprocs=4,
    rule="3 of 4 runs: a seeded concurrent run - preload by one task, then 1-2 writers with disjoint key sets, a compactor task (or the background worker), optionally a reader - in which the seeded scheduler decides who gets DB.mu each time compaction releases it (between any two records); "
         "history checked with porcupine + Count bounds + scan truthfulness, and up to 40 process-crash images taken at journal positions inside/right after Compact (incl. torn writes) are recovered and compared with the exact per-key oracle (single writer per key: last acked value or the write in flight). "
         "1 of 4 runs: a sequential compaction-heavy history with every crash point inside/after Compact swept as in C03. evaluations = crash images checked (+1 per run); distinct_nontrivial = distinct schedule digests + distinct crash images",
    real=REAL_SCHED, stub=STUB_SCHED, assumptions=SCHED_ASSUME + CRASH_ASSUME,
    must_reach=dict(quick=["segment_removed", "writer_ran_during_compaction", "pcrash_in_compaction_window", "torn_write", "context_switches"], thorough=["writer_ran_during_compaction"]),
)
PROPS["C10"] = dict(
    level="exploration",
    runs=dict(quick=6000, thorough=150000), budget_s=dict(quick=100, thorough=1200), gomaxprocs=4,
    real_engine=True, real_runs=dict(quick=1600, thorough=40000), real_budget_s=dict(quick=70, thorough=900), mem_gb=None,
    rule="one evaluation = one seeded concurrent run of 3-6 tasks calling every public method (Put, Delete, Get, GetAppend, Has, Count, Items/Next, Sync, Compact, Backup, FileSize, Metrics, Close - Close by a random task at a random position, sometimes twice), background worker on in half the runs; "
         "oracles: no panic, scheduler deadlock detector, step limit (livelock), no goroutine left when the bubble ends, no database-spawned goroutine granted a step after the first successful Close returned, "
         "an operation may return an error only if a Close had been invoked by the time it returned, and the directory reopened cleanly and with forced recovery holds per key the last acknowledged write or a write that failed in the Close race "
         "(a write invoked after Close returned that returns nil must have no effect; the log replayed by the independent decoder must yield an allowed value per key); "
         "distinct_nontrivial = distinct schedule digests. "
         "SECOND MODE (data-race and memory-fault clauses, REAL): the same kind of seeded plans (tasks lengthened to >= 40 calls) run by real goroutines on the UNINSTRUMENTED code built with -race on fs.Mem, fs.OS and fs.OSMMap with the real background worker (1-11 ms tickers); "
         "judged: any race detector report (attributed to the run by the growth of the detector's log file), a panic or memory fault (SetPanicOnFault) in any task, no progress within 60 s, a database goroutine still present after Close returned; API errors are counted, not judged",
    real=REAL_SCHED + ["REAL mode: the unmodified repository code, real sync, real goroutines and tickers, fs.Mem / fs.OS / fs.OSMMap, Go race detector"], stub=STUB_SCHED + ["REAL mode: nothing is stubbed"],
    assumptions=SCHED_ASSUME + ["the REAL mode observes executions whose interleaving it does not control (DESIGN.md 2.8): the race detector is happens-before based and blind under a scheduler that hands one baton around; a race report is its own witness, its replay re-runs the seeded workload up to 20 times",
                                "open handles / a held lock after Close are counted as probes, not judged (C15 / C13 matters)"],
    must_reach=dict(quick=["close_raced", "write_failed_in_close_race", "write_started_after_close", "tick", "context_switches", "real_run_on_mem", "real_run_on_os", "real_run_on_osmmap"], thorough=["close_raced", "real_run_on_osmmap"]),
)
PROPS["C11"] = dict(
    level="exploration",
    runs=dict(quick=5000, thorough=100000), budget_s=dict(quick=170, thorough=1700), gomaxprocs=4,
    rule="3 of 4 runs: scanner tasks calling Next one item at a time, interleaved by the seeded scheduler with 1-3 writers (Put/Delete on 8-90 keys aimed at one bucket chain, so the index splits and slots shift during the scan; 1 run in 3: two chains of low-bit colliders plus spread keys, 50-70% loaded before the scans and the rest put during them, so overflow buckets freed by a split are reused by the other chain under a paused scan) and compaction; each returned pair must carry a value put for that key before the Next returned, "
         "each key unchanged for the whole scan must appear, the final quiescent scan must be exact. 1 of 4 runs: sequential histories with exact scans (multiset == model, ErrIterationDone afterwards). distinct_nontrivial = distinct schedule digests / states",
    real=REAL_SCHED, stub=STUB_SCHED, assumptions=SCHED_ASSUME,
    must_reach=dict(quick=["scans", "scan_overlapped_writes", "scan_run_with_splits", "index_split", "overflow_bucket_allocated"], thorough=["scan_run_with_splits"]),
)
PROPS["C12"] = dict(
    level="exploration",
    runs=dict(quick=6000, thorough=120000), budget_s=dict(quick=170, thorough=1700), gomaxprocs=4,
    rule="one evaluation = one seeded concurrent run: one writer (totally ordered log), a Backup task starting at a scheduler-chosen time, optionally a compactor / the background worker; short reads make the copy loop many scheduling points; "
         "the backup directory is opened as a database and must equal the model after the first j writer operations for some j between #acked-before-call and #issued-before-return; the backup task must not mutate the source; source history linearizable; "
         "distinct_nontrivial = distinct schedule digests",
    real=REAL_SCHED, stub=STUB_SCHED, assumptions=SCHED_ASSUME,
    must_reach=dict(quick=["writes_during_backup", "rollover_during_backup", "short_read"], thorough=["rollover_during_backup"]),
)
TEXT["C05"] = _t("sim+harness", "deterministic simulation with fault injection: seeded scheduler places writers in every lock-release window of compaction; crash images from the journal inside Compact; porcupine + exact per-key crash oracle",
                 "Seeded search over interleavings of writers with compaction's per-record critical sections, plus process-crash images inside and after Compact (concurrent and sequential), recovered by the real code.",
                 "Schedules and crash points sampled. Single writer per key makes the crash oracle exact.", "DESIGN.md 4/C05")
TEXT["C10"] = _t("sim+harness", "deterministic simulation: all public methods incl. Close from several tasks under the seeded scheduler; deadlock detector, panic capture, end-of-bubble leak check, post-Close directory oracle; plus a real-goroutine -race mode on the three shipped file systems for the data-race and memory-fault clauses",
                 "Seeded search over interleavings of every public method with Close and the background worker decides the panic / deadlock / goroutine-left-after-Close / Close-race clauses; the data-race and mmap memory-fault clauses are decided by running the same seeded plans with real goroutines on the uninstrumented code under the Go race detector on fs.Mem, fs.OS and fs.OSMMap.",
                 "SIM: schedules sampled at lock/FS-call granularity on the simulated disk. REAL: interleavings are the Go runtime's, not controlled and not replayable schedule-exactly (stated in DESIGN.md 2.8); detection of a race is happens-before based, so it does not need the bad interleaving to occur.", "DESIGN.md 2.8, 4/C10, 11")
TEXT["C11"] = _t("sim+harness", "deterministic simulation: scans interleaved item by item with writers, splits and compaction by the seeded scheduler; write-log oracle for truthfulness and completeness",
                 "Seeded search over interleavings of Items scans with Put/Delete aimed at the split bucket and at overflow chains, and Compact; plus exact sequential scans.",
                 "Schedules sampled.", "DESIGN.md 4/C11")
TEXT["C12"] = _t("sim+harness", "deterministic simulation: Backup task vs one writer and compaction under the seeded scheduler, short-read fault personality; opened backup compared with prefixes of the writer's log",
                 "Seeded search over interleavings of one Backup with concurrent writes that roll the log over and with compaction; the backup must be a prefix-consistent point-in-time copy and must not touch the source.",
                 "Schedules sampled.", "DESIGN.md 4/C12")

PROPS["C15"] = dict(
    level="exploration",
    runs=dict(quick=2400, thorough=30000), budget_s=dict(quick=170, thorough=1700), mem_gb=None,
    rule="4 of 5 runs: one seeded steady overwrite/delete workload over a fixed key universe (3-90 keys, colliding families) in 6-25 cycles (thorough 10-70): writes, optionally a purge of every key, Compact, then a random subset of Sync/Put/Delete/Backup/Close+Open/Compact; "
         "one evaluation = one Compact call audited at the file-system seam: number of segment files gone == CompactedSegments, no side file without its segment, every file of the directory is a live segment / its side file / index / metadata / lock, "
         "open handles == live segments + 2 index files (0 after Close), segment bytes <= 1.5 x live record bytes / (1 - fragmentation threshold) + 2 segments + 2 KiB, index bytes <= 512 x (6 + max keys ever live / 6); "
         "the audit of directory, handles and index size runs after every API call; every call must return nil, every Backup is opened and compared with the model. "
         "1 of 5 runs: a seeded program with compactions and clean restarts on the real fs.OS and fs.OSMMap in a run-time temporary directory; at every checkpoint the descriptors under the directory (/proc/self/fd) must number live segments + 3 and the mappings (/proc/self/maps) live segments + 2 on fs.OSMMap, 0 after Close; "
         "distinct_nontrivial = distinct (model, segment bytes) states after compactions",
    real=REAL_SEQ + ["fs.OS, fs.OSMMap (real descriptors and mappings) in 1 of 5 runs"], stub=STUB_SEQ,
    assumptions=["sequential histories with clean restarts only (the property's quantifier)",
                 "the byte bounds are deliberately loose (measured peak: 0.57 of the segment bound, 0.59 of the index bound): they separate 'bounded by live data' from 'grows with history', they do not pin the compaction policy"],
    must_reach=dict(quick=["compaction_cycles", "compaction_removed_every_segment", "backup_verified", "clean_reopen", "segment_removed", "overflow_bucket_allocated", "proc_fd_samples", "program_executed_on_osmmap"],
                    thorough=["compaction_removed_every_segment"]),
)
TEXT["C15"] = _t("harness", "deterministic simulation (fault-free configuration): long seeded compaction cycles on the simulated disk, directory / handle-table / size audit at the file-system seam after every call",
                 "Seeded long-running overwrite/delete/compact/restart cycles; after every call the simulated disk's directory and handle table are audited against the allowed file set and size bounds derived from the live data; post-compaction usability (Sync, Put, Delete, Backup, Close) exercised incl. compaction that removes every segment. 2 runs in 7: periodic compaction by the background worker on scheduler-owned tickers/timers while a maintenance task holds the maintenance lock (ticks refused busy), then bounded liveness: two more delivered ticks (or 6000 idle steps) after the workload stops, Close, same size bound.",
                 "Sampling of histories, schedules and thresholds. Real descriptors and mappings are counted through /proc/self in the runs on fs.OS / fs.OSMMap.", "DESIGN.md 4/C15, 11")

REAL_XFS = REAL_SEQ + ["fs.Mem, fs.OS, fs.OSMMap (real files, real mmap/munmap, real flock in a run-time temporary directory under /dev/shm or $TMPDIR)"]
PROPS["C17"] = dict(
    level="exploration",
    runs=dict(quick=9000, thorough=200000), budget_s=dict(quick=170, thorough=1700), mem_gb=None,
    rule="one evaluation = one seeded program (8-90 calls, thorough up to 200: Put/Delete/Get/GetAppend/Has/Count/Items/Sync/Compact/FileSize, clean Close/Open, and 0-2 unclean shutdowns taken as a copy of the directory right before the k-th mutating file-system call of an operation "
         "- optionally with the in-flight write torn at a 512-byte boundary, or zeros / garbage appended to the newest segment; after 1 unclean shutdown in 3 the recovering Open is itself cut short the same way, so the next recovery starts from moved-aside index files and a half-rebuilt index) executed four times: on the simulated disk, fs.Mem, fs.OS and fs.OSMMap, with the same hash seeds and the same (seeded) directory listing order; "
         "the four traces (every call's result, error nil-ness, Count, sorted scan digests, CompactionResult, FileSize, recovery yes/no, and name:length:digest of every segment file at checkpoints after each Close, each recovery, every 8th call) must be identical, "
         "every result must equal the reference map, after an unclean shutdown each key must hold its value from before or after the operation in flight; distinct_nontrivial = distinct traces",
    real=REAL_XFS, stub=["crypto/rand (same hash seed on every file system)", "the simulated disk is one of the four file systems compared"],
    assumptions=["unclean shutdown on the real file systems = copy of the directory taken through the FileSystem interface while the database is open (process-crash image; no power-loss model on real files)",
                 "the mapping-doubling path of fs.OSMMap (files beyond the initial 1 GiB mapping) is not reached"],
    must_reach=dict(quick=["program_executed_on_simfs", "program_executed_on_mem", "program_executed_on_os", "program_executed_on_osmmap", "recovery_ran", "torn_write", "damaged_tail", "compacted_segments", "unclean_shutdown_inside_op", "unclean_shutdown_inside_recovery"],
                    thorough=["torn_write", "recovery_ran"]),
)
TEXT["C17"] = _t("harness", "deterministic simulation, differential configuration: one seeded program incl. injected unclean shutdowns (directory snapshot before the k-th FS call, torn in-flight write, damaged tail) executed on the simulated disk and the three shipped file systems; traces and segment bytes compared",
                 "Seeded programs with clean restarts and injected unclean shutdowns run on SimFS, fs.Mem, fs.OS and fs.OSMMap; call results and the bytes of every segment file must agree across all four and with the reference map.",
                 "Programs and crash points sampled. Real files live in a run-time temp directory; the 1 GiB mmap doubling path is not reached.", "DESIGN.md 4/C17, 11")
PROPS["C14"] = dict(
    level="exploration",
    runs=dict(quick=8000, thorough=150000), budget_s=dict(quick=170, thorough=1700), mem_gb=None, gomaxprocs=4,
    rule="5 of 10 runs: sequential history (10-200 calls) on the simulated disk in its aliasing + poisoning personality (Slice returns a view of the file buffer; the buffer is overwritten with 0xDB whenever the file grows, is truncated, or its last handle is closed - i.e. on every 'remap'/'munmap'); "
         "every slice returned by Get/GetAppend/Next (up to 600 per run) is kept with a private snapshot and re-compared after every later call; no returned slice may point into a file buffer; every key/value argument is overwritten right after the call returns and later reads must still return the written bytes. "
         "3 of 10: the cross-file-system engine of C17 on SimFS, fs.Mem and fs.OSMMap (real mmap/munmap, SetPanicOnFault: reading a retained slice after Close/segment removal must neither fault nor differ). "
         "2 of 10: concurrent run (C07 engine) on the poisoning personality with retained slices checked after Close. distinct_nontrivial = distinct states / traces / schedules",
    real=REAL_XFS + ["seeded scheduler runs: the database's own background worker"], stub=STUB_SEQ,
    assumptions=["the simulated disk poisons on every growth/truncate/close, which is more hostile than any shipped file system (fs.OSMMap remaps only past 1 GiB) and legal for a FileSystem implementation",
                 "fs.OSMMap's own remapping beyond 1 GiB is not reached"],
    must_reach=dict(quick=["buffer_poisoned", "file_remapped", "slices_retained", "segment_removed_while_slices_retained", "retained_slices_checked", "program_executed_on_osmmap", "clean_reopen"], thorough=["buffer_poisoned"]),
)
TEXT["C14"] = _t("sim+harness", "deterministic simulation with fault injection at the file-system seam: aliasing + buffer-poisoning disk personality (every remap/unmap destroys what earlier Slice results point to), retained-slice snapshot oracle; plus real mmap/munmap with faults turned into panics",
                 "Every slice the database returns is kept and re-compared after every later call while files grow, are truncated, compacted away and closed on a disk that poisons unmapped buffers; arguments are scribbled after each call. The same oracle runs on real fs.OSMMap where a stale slice faults.",
                 "Histories sampled. Poisoning personality is stricter than the shipped mmap implementation.", "DESIGN.md 4/C14, 11")

PROPS["C18"] = dict(
    level="exploration",
    runs=dict(quick=8000, thorough=150000), budget_s=dict(quick=170, thorough=1700),
    rule="1 of 2 runs (golden): one of the 72 database directories written by the pinned build 5812af6 (= pinned commit + the add-only export hook; 36 seeded histories covering one long bucket chain, identical 32-bit hashes, several index splits, rollover + compaction with tiny segments, key/value length boundaries, deletes; "
         "each as the cleanly closed directory and as a copy taken while open, half of those with a torn record appended to the newest segment; stored under /verif/golden with the contents recorded by the writer's reference map) is the initial disk of the simulation: "
         "the current code must open it - a clean image without recovery, an unclean one with - with exactly the recorded contents (Get/Has per key, Count, full scan, structural index walk, independent log replay), then a seeded history of 0-60 calls (thorough 150) incl. Close/Open runs on top under the strict reference-map oracle, "
         "with reader-side disk personalities, thresholds and sync modes varied. 1 of 2 runs (format): a seeded history written by the current code; after every call every database file must carry the documented 512-byte header (signature, version 2), segment names must be <5 digits>-<sequence>.psg, index files whole 512-byte buckets, "
         "and after every mutating call the independent decoder must accept every segment record for record and replay (by sequence id) to the reference map, the index must walk under the documented bucket layout. evaluations = format checks + golden opens; distinct_nontrivial = distinct (model, segment bytes) states / (image, final model) pairs",
    real=REAL_SEQ + ["the golden images were WRITTEN by the pinned build running on the same simulated disk (./check goldengen with VERIF_REPO pointing at a worktree of 5812af6)"], stub=STUB_SEQ,
    assumptions=["histories on which the pinned writer itself disagrees with the reference map or with the independent log replay (its known defects F01, F11) are not in the corpus: 5 of 41 generated histories were skipped for that reason",
                 "the independent decoder and index walker are written from docs/design.md"],
    must_reach=dict(quick=["golden_clean_opened", "golden_unclean_opened", "golden_feature_torn_tail", "golden_feature_overflow_bucket_allocated", "golden_feature_index_split", "golden_feature_segment_removed", "format_checks", "recovery_moved_file"],
                    thorough=["golden_clean_opened", "format_checks"]),
)
TEXT["C18"] = _t("harness", "deterministic simulation seeded with stored disk images: directories written by the pinned build are the initial state of the simulated disk (opened, checked, continued with seeded histories); independent decoder + header/name/layout check after every call of histories written by the current code",
                 "Golden corpus of 72 images written by the pinned version (clean, unclean, torn tail) opened by the current code with recorded contents and continued under the reference-map oracle; every file the current code writes is checked against the documented format after every call by an independent reader.",
                 "The golden half is replay of stored inputs plus seeded continuation; no search over the writer's histories beyond the stored corpus.", "DESIGN.md 4/C18, 5, 11")

PROPS["C13"] = dict(
    level="exploration",
    runs=dict(quick=16000, thorough=400000), budget_s=dict(quick=170, thorough=1700), gomaxprocs=4,
    rule="one evaluation = one seeded run of 2-4 opener tasks, each doing 1-3 (thorough 1-5) rounds of Open / 0-2 Put-Delete / Close-or-die on ONE directory of the REAL fs.OS (real stat, open, flock, link, unlink, close in a run-time temporary directory); "
         "the seeded scheduler decides which task executes the next statement of fs.createLockFile and (*osLockFile).Unlock (the instrumenter puts a yield before every statement of both, at every nesting level) and the next API call; 'die' closes the session's descriptors without running Close (lock file stays, flock released). "
         "Judged at every Open: two sessions open at once (neither has invoked Close/die) = violation; a failed Open must fail with the 'locked' error and must have made no mutating file-system call except on the lock file; a successful Open must have run recovery (index files moved aside, seen at the session's FileSystem wrapper) iff the previous session died, "
         "and must read exactly the contents acknowledged by earlier sessions; after the run one more Open must succeed with those contents. distinct_nontrivial = distinct schedule digests",
    real=REAL_SEQ + ["fs.OS incl. createLockFile / Unlock on the real kernel (flock between descriptors of one process conflicts like between processes)"],
    stub=["sync.Mutex/RWMutex (scheduler-owned)", "crypto/rand", "process death is simulated by closing the session's descriptors"],
    assumptions=["sessions end at API-call boundaries (a death in the middle of Close is C03's subject); the lock implementations of windows/plan9 are not built on this platform; fs.Mem's lock is exercised by the Open/Close tasks of C10",
                 "schedules sampled by a seeded PRNG; the space is small (about 20 yield points per Open/Close pair), so the quick tier revisits most 2- and 3-task interleavings many times"],
    must_reach=dict(quick=["open_failed_locked", "recovery_after_death", "run_with_competition_and_death", "closed_cleanly", "context_switches"], thorough=["run_with_competition_and_death"]),
)
TEXT["C13"] = _t("sim+harness", "deterministic simulation over real system calls: seeded scheduler interleaves the statements of lock acquisition/release (yields inserted by the instrumenter) of several openers on the real fs.OS; process death injected as a fault; holder-count, recovery-iff-died and contents oracles",
                 "Seeded search over statement-level interleavings of concurrent Open/Close/die on one real directory; decides mutual exclusion, the 'locked' error, that a failed Open changes nothing, and that recovery runs exactly after a session that died.",
                 "Schedules sampled. Real kernel flock semantics; death only at API boundaries.", "DESIGN.md 4/C13, 11")

# C06 under concurrency (round 3): 1 run in 4 is a concurrent run with power-loss images
PROPS["C06"].update(
    rule="3 of 4 runs: " + PROPS["C06"]["rule"] + ". 1 of 4 runs: a CONCURRENT run under the seeded scheduler (preload, 1-2 writers with disjoint keys issuing Sync calls or in sync-after-every-write mode, a compactor task or the background compaction worker, "
         "optionally a dedicated Sync task and a reader) with up to 12 power-loss instants taken from its journal (biased to segment creation / sync / removal) x the prefix families; per key the recovered value must be the one after the last write that had returned "
         "before the last completed Sync was invoked, or one written later",
    real=REAL_SCHED, stub=STUB_SCHED, gomaxprocs=4,
    assumptions=PL_ASSUME + ["the concurrent runs have one writer per key (exact per-key order); the writes covered by a Sync are those that had returned before it was invoked"],
    must_reach=dict(quick=PROPS["C06"]["must_reach"]["quick"] + ["power_loss_in_concurrent_run", "sync_calls_in_concurrent_run", "writer_ran_during_compaction"], thorough=["ploss-one-file-loses-all", "power_loss_in_concurrent_run"]),
)
TEXT["C06"]["engine"] = "sim+harness"
TEXT["C06"]["level_text"] = TEXT["C06"]["level_text"].replace("per key the recovered value", "sequential chains and concurrent runs (Sync racing with writers and compaction under the seeded scheduler); per key the recovered value")

PROPS["C16"].update(
    rule="5 of 6 runs: " + PROPS["C16"]["rule"] + ". 1 of 6 runs: a seeded program with values of 0 ... 16000 bytes executed on the simulated disk and on the real fs.OSMMap whose initial mapping is set (scratch build knob) to the largest record of the run, "
         "so that records of up to one whole mapping cross the end of the mapping; results must equal the reference map on both",
    real=REAL_SEQ + ["fs.OSMMap (real mmap) in 1 of 6 runs"],
)
PROPS["C16"]["must_reach"]["quick"] = PROPS["C16"]["must_reach"]["quick"] + ["program_executed_on_osmmap"]

PROPS["C19"].update(
    rule=PROPS["C19"]["rule"] + ". One worker additionally recovers a segment of more than 2 GiB (512 valid records of 4 MiB served procedurally by the simulated disk, nothing of it held in memory) whose tail is a header claiming "
         "key/value sizes around 2^31 (7 cases: offsets + claimed lengths cross 2^32); there the bound is 2 x bytes present + 64 MiB, the read-request bound is the same, the segment must be cut back to its valid prefix and the last record must read back",
    big_worker=True, mem_gb=12,
)
PROPS["C19"]["must_reach"]["quick"] = PROPS["C19"]["must_reach"]["quick"] + ["huge_segment_recovered"]
PROPS["C19"]["must_reach"]["thorough"] = PROPS["C19"]["must_reach"]["thorough"] + ["huge_segment_recovered"]

IOF = " In 1 of 3 runs the record append of 1-2 writes fails with an injected ENOSPC after part of the record was stored (the failed write must have had no effect or its whole effect; the session then stays open until its crash; everything acknowledged afterwards is under the same oracle)."
for _p in ("C03", "C04", "C06"):
    PROPS[_p]["rule"] = PROPS[_p]["rule"] + IOF
    PROPS[_p]["assumptions"] = PROPS[_p]["assumptions"] + ["the injected I/O error is the only one (DESIGN.md 12.5): after it the independent decoder tolerates an invalid TAIL of a segment and Compact may fail - both are what the unchanged code does after a failed append, and no listed property covers behaviour after a failed file-system call"]
    PROPS[_p]["must_reach"]["quick"] = PROPS[_p]["must_reach"]["quick"] + ["write_failed_by_injected_error"]

PROPS["C16"]["must_reach"]["quick"] = PROPS["C16"]["must_reach"]["quick"] + ["segment_near_4gib"]
PROPS["C16"]["rule"] = PROPS["C16"]["rule"] + ". The big worker also runs one history with the DEFAULT segment limit (4 GiB - 1) on a current segment made 50-450 bytes short of it (a procedural zero middle part the clean Open never reads): the records that follow exceed the remaining space, must go to a new segment and read back, also after a clean restart; no segment may exceed 2^32 - 1 bytes"

PROPS["C05"]["rule"] = PROPS["C05"]["rule"] + IOF
PROPS["C05"]["assumptions"] = PROPS["C05"]["assumptions"] + ["injected I/O error on a record append in the sequential quarter of the runs (DESIGN.md 12.5)"]
PROPS["C06"]["rule"] = PROPS["C06"]["rule"] + " In 1 of 4 sequential runs one fsync of a segment fails with an injected EIO: a Sync (or sync-after-write Put/Delete) that returned the error is not a sync point, the next successful one must be."
PROPS["C06"]["must_reach"]["quick"] = PROPS["C06"]["must_reach"]["quick"] + ["sync_failed_by_injected_error"]
PROPS["C02"]["rule"] = PROPS["C02"]["rule"] + "; in 1 of 4 runs a write to a metadata file fails (injected ENOSPC) during one Close: a Close that reports the error is followed by the death of the process and a recovering Open that must find every acknowledged write; a Close that reports success is under the clean-restart oracle"
PROPS["C02"]["must_reach"]["quick"] = PROPS["C02"]["must_reach"]["quick"] + ["reopen_after_failed_close"]
PROPS["C02"]["must_reach"]["thorough"] = PROPS["C02"]["must_reach"]["thorough"] + ["reopen_after_failed_close"]

PROPS["C17"]["rule"] = PROPS["C17"]["rule"].replace("executed four times: on the simulated disk, fs.Mem, fs.OS and fs.OSMMap,", "executed five times: on the simulated disk, fs.Mem, fs.OS, fs.OSMMap and on one real directory opened alternately through fs.OS and fs.OSMMap session by session (cross-file-system reopen),").replace("the four traces", "the five traces")
PROPS["C17"]["must_reach"]["quick"] = PROPS["C17"]["must_reach"]["quick"] + ["cross_fs_reopen", "compaction_inside_scan"]

# wave 6: concurrent parts of C04 / C09 / C15
PROPS["C04"]["must_reach"]["quick"] = PROPS["C04"]["must_reach"]["quick"] + ["run_started_with_recovery", "pcrash_in_compaction_window"]
PROPS["C09"]["must_reach"]["quick"] = PROPS["C09"]["must_reach"]["quick"] + ["power_loss_after_close_of_concurrent_session"]
PROPS["C15"]["must_reach"]["quick"] = PROPS["C15"]["must_reach"]["quick"] + ["bg_worker_compaction_refused_busy", "tick"]
PROPS["C10"]["must_reach"]["quick"] = PROPS["C10"]["must_reach"]["quick"] + ["race_run_cold_start"]
PROPS["C01"]["must_reach"]["quick"] = PROPS["C01"]["must_reach"]["quick"] + ["bucket_with_successors_emptied"]
# wave 9
PROPS["C08"]["must_reach"]["quick"] = PROPS["C08"]["must_reach"]["quick"] + ["raw-garbage"]
PROPS["C13"]["must_reach"]["quick"] = PROPS["C13"]["must_reach"]["quick"] + ["start_with_leftover_lock_names"]
