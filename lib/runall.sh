#!/bin/bash
# usage: lib/runall.sh [tier] [props...]  - runs the registered checks one after the other, prints one line each
tier=${1:-quick}; shift
cd "$(dirname "$(readlink -f "$0")")/.."
props=${@:-$(python3 -c "import json;print(' '.join(c['property_id'] for c in json.load(open('MANIFEST.json'))['checks']))")}
for p in $props; do
  out=$(./check $p $tier 2>/tmp/runall-$p.err); rc=$?
  echo "$p rc=$rc $(echo "$out" | grep -E '^(SUMMARY|VIOLATION|KNOWN|NONDET)' | cut -c1-260 | tr '\n' ' ')"
  if [ $rc -ne 0 ]; then tail -n 5 /tmp/runall-$p.err | cut -c1-300; bad=1; fi
done
exit ${bad:-0}
