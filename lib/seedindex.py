#!/usr/bin/env python3
"""Writes /verif/seeded/INDEX.md from the meta.json files of the independently written seeded changes."""
import glob, json, os
rows = []
for m in sorted(glob.glob("/verif/seeded/A*-C*/meta.json")):
    d = json.load(open(m))
    rows.append(d)
with open("/verif/seeded/INDEX.md", "w") as f:
    f.write("# Independently written seeded changes and what the checks made of them\n\n")
    f.write("`first` = result of the quick tier (seed 1) the first time the change was run; `now` = after the strengthening described in the note.\n\n")
    f.write("| id | property | needs to manifest | first | now | note |\n|----|----------|-------------------|-------|-----|------|\n")
    for d in rows:
        f.write("| %s | %s | %s | %s | %s | %s |\n" % (d["id"], d["property"], d["needs_to_manifest"].replace("|", "/"), d["first_result"], d["result"], d.get("note", "").replace("|", "/")))
    n = len(rows)
    caught = sum(1 for d in rows if d["result"] == "caught")
    first = sum(1 for d in rows if d["first_result"] == "caught")
    f.write("\n%d changes; %d detected on the first run, %d detected now; the rest are listed with the reason.\n" % (n, first, caught))
    ben = [json.load(open(m)) for m in sorted(glob.glob("/verif/seeded/B*-B*/meta.json"))]
    if ben:
        f.write("\n## Benign changes (must NOT be reported)\n\nCorrect, behaviour-changing edits written by independent sub-agents; every listed check has to stay quiet on them.\n\n| id | what | checks run | result | note |\n|----|------|------------|--------|------|\n")
        for d in ben:
            f.write("| %s | %s | %s | %s | %s |\n" % (d["id"], d["what"].replace("|", "/"), " ".join(d["checks_run"]), d["result"], d.get("note", "").replace("|", "/")))
    f.write("\nOwn mutation patches (M01-...) are the `.diff` files next to this index; DESIGN.md 11.4 and 12 say which check catches which.\n")
print(len(rows), "entries")
