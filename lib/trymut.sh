#!/bin/bash
# usage: lib/trymut.sh <patch.diff> <Cxx> [tier]  - apply a patch to /repo, run the check, revert.
set -u
patch=$1; prop=$2; tier=${3:-quick}
cd /repo || exit 2
if ! git diff --quiet; then echo "repo dirty"; exit 2; fi
git apply "$patch" || { echo "patch does not apply"; exit 2; }
( go build ./... ) || { git checkout -- . ; echo "does not build"; exit 2; }
cd /verif && ./check "$prop" "$tier" 2>&1 | grep -E "^(VIOLATION|KNOWN|SUMMARY|NONDET)|check: (worker|the workload)" | cut -c1-600
rc=${PIPESTATUS[0]}
cd /repo && git checkout -- . && git status --short
exit $rc
