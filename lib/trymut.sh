#!/bin/bash
# usage: lib/trymut.sh <patch.diff> <Cxx> [tier]
# Applies a patch to a scratch worktree of /repo's HEAD (outside /repo and /verif), runs the check
# against it (VERIF_REPO) and removes the worktree. /repo itself is never touched.
set -u
patch=$(readlink -f "$1"); prop=$2; tier=${3:-quick}
wt=$(mktemp -d /tmp/verif-mut-XXXXXX)
git -C /repo worktree add -q --detach "$wt" HEAD || exit 2
cleanup() { git -C /repo worktree remove --force "$wt" 2>/dev/null; rm -rf "$wt"; git -C /repo worktree prune; }
trap cleanup EXIT
( cd "$wt" && git apply "$patch" && go build ./... ) || { echo "patch does not apply or build"; exit 2; }
cd /verif && VERIF_REPO="$wt" VERIF_NO_EVIDENCE=1 ./check "$prop" "$tier" 2>&1 | grep -E "^(VIOLATION|KNOWN|SUMMARY|NONDET)|check: (worker|the workload)" | cut -c1-600
exit ${PIPESTATUS[0]}
