#!/bin/bash
# usage: lib/vetmut.sh <dir with patch.diff and a demonstration (zz_demo_test.go or demo/main.go)>
# Confirms, in a scratch worktree of /repo's HEAD (never in /repo): the patch applies and builds, the unedited test
# suite passes with it, the demonstration fails with it and passes without it.
set -u
export GOFLAGS=-mod=mod GOPROXY=off GOSUMDB=off GOTOOLCHAIN=local
d=$(readlink -f "$1")
wt=$(mktemp -d /tmp/verif-vet-XXXXXX)
git -C /repo worktree add -q --detach "$wt" HEAD || exit 2
cleanup() { git -C /repo worktree remove --force "$wt" 2>/dev/null; rm -rf "$wt"; git -C /repo worktree prune; }
trap cleanup EXIT
cd "$wt"
demo() {
  if [ -f "$d/zz_demo_test.go" ]; then cp "$d/zz_demo_test.go" .; go test -vet=off -count=1 -timeout 10m -run "${DEMO_RUN:-.}" . >"$wt/demo.log" 2>&1; rc=$?; rm -f zz_demo_test.go; return $rc
  elif [ -f "$d/demo/main.go" ]; then mkdir -p zzdemo && cp "$d/demo/main.go" zzdemo/; go run ./zzdemo >"$wt/demo.log" 2>&1; rc=$?; rm -rf zzdemo; return $rc
  else echo "no demonstration found"; return 99; fi
}
demo; echo "demo without patch: rc=$? (want 0)"; tail -3 "$wt/demo.log" | cut -c1-300
git apply "$d/patch.diff" || { echo "patch does not apply"; exit 2; }
go build ./... || { echo "patched tree does not build"; exit 2; }
go test -vet=off -count=1 -timeout 25m ./... >"$wt/suite.log" 2>&1; echo "suite with patch: rc=$? (want 0)"; grep -E "^(FAIL|---)" "$wt/suite.log" | head -5
demo; echo "demo with patch: rc=$? (want != 0)"; grep -E "^\s+.*(Error|error|FAIL|expected|got|want)" "$wt/demo.log" | head -4 | cut -c1-300
