module verif.local/sim

go 1.18
