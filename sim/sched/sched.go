// Package sched is the deterministic scheduler of the simulator.
//
// One simulation runs inside one testing/synctest bubble. Tasks are ordinary goroutines;
// every scheduler-visible operation parks the calling goroutine on its own channel and the
// scheduler (the root goroutine of the bubble, in Run) wakes exactly one parked request at a
// time, after synctest.Wait has established that every goroutine of the bubble is durably
// blocked. Which request is woken is decided by the choice tape (recorded choices first,
// then a PRNG seeded by the run seed).
package sched

import (
	"fmt"
	"math/rand"
	"runtime"
	"sort"
	"strings"
	"sync"
	"sync/atomic"
	"time"
)

// Waiter is implemented by the environment (testing/synctest.Wait).
type Waiter func()

type request struct {
	task     *Task
	label    string
	canGrant func() bool
	onGrant  func()
	ch       chan struct{}
}

// Task is a simulated thread of control.
type Task struct {
	ID       int
	Name     string
	finished bool
	external bool // goroutine spawned by the system under test
	Panic    interface{}
	Stack    string
	// Holding is maintained by simsync for the wait-for graph.
	Holding map[string]int
}

// Ticker is a simulated ticker.
type Ticker struct {
	C        chan time.Time
	interval time.Duration
	next     time.Duration
	stopped  bool
	id       int
	oneShot  bool // a timer: fires once (the value stays in the 1-buffered channel until received), then waits for Reset
}

// Config shapes the schedule space of one run.
type Config struct {
	Seed      int64
	Tape      []int   // recorded choices (replay / minimisation)
	Sticky    int     // 0 = uniform; n>0: stay on the running task with probability (n-1)/n
	TickProb  float64 // probability per step of advancing simulated time when a ticker exists
	MaxSteps  int
	FSYields  bool
	// UnlockYields makes every Unlock/RUnlock a scheduling point too: another task may run right after a
	// lock was released and before the releasing task executes its next statement (exposes code that keeps
	// using protected state after it let go of the lock).
	UnlockYields bool
	LogEvents    bool
	OnStep    func(s *Sim) // invariant hook, runs on the scheduler goroutine after every grant+quiescence
}

// Sim is one simulation.
type Sim struct {
	// LastExternalGrant is the event counter value at the latest grant to a goroutine started by the
	// system under test (0 = none): such a goroutine was demonstrably still running at that event.
	LastExternalGrant int64
	cfg               Config
	wait              Waiter
	rng               *rand.Rand
	mu                sync.Mutex // protects pending, tasks, goids (goroutines may arrive concurrently)
	pending           []*request
	tasks             []*Task
	goids             map[int64]*Task
	tickers           []*Ticker
	nExternal         int
	nHarness          int
	rootGo            int64

	tapePos int
	Choices []int // every choice actually made (the tape to replay this run)

	now      time.Duration
	event    int64
	steps    int
	lastTask *Task

	// statistics
	Ticks        int
	TicksDropped int
	Switches     int
	ChoicePoints int
	schedHash    uint64
	evlog        []string
	Deadlock     string
	StepLimit    bool
	aborted      bool
}

var active atomic.Pointer[Sim]

// Active returns the running simulation or nil.
func Active() *Sim { return active.Load() }

// New creates a simulation. wait must be synctest.Wait.
func New(cfg Config, wait Waiter) *Sim {
	if cfg.MaxSteps == 0 {
		cfg.MaxSteps = 2000000
	}
	s := &Sim{cfg: cfg, wait: wait, rng: rand.New(rand.NewSource(cfg.Seed)), goids: map[int64]*Task{}}
	s.schedHash = 1469598103934665603
	return s
}

func goid() int64 {
	var buf [64]byte
	n := runtime.Stack(buf[:], false)
	// "goroutine 123 ["
	var id int64
	for i := 10; i < n; i++ {
		c := buf[i]
		if c < '0' || c > '9' {
			break
		}
		id = id*10 + int64(c-'0')
	}
	return id
}

// FSYields tells the simulated file system whether to yield at every call.
func (s *Sim) FSYields() bool { return s.cfg.FSYields }

// UnlockYields tells simsync whether releasing a lock is a scheduling point.
func (s *Sim) UnlockYields() bool { return s.cfg.UnlockYields }

// Now returns the current event number and increments it: a total order over everything
// the harness stamps.
func (s *Sim) Stamp() int64 { return atomic.AddInt64(&s.event, 1) }

// SimTime returns the simulated clock.
func (s *Sim) SimTime() time.Duration { return s.now }

// Steps returns the number of scheduling steps so far.
func (s *Sim) Steps() int { return s.steps }

// SchedHash is a digest of the sequence of (task, label) grants.
func (s *Sim) SchedHash() uint64 { return s.schedHash }

// EventLog returns the recorded grant log (only when Config.LogEvents).
func (s *Sim) EventLog() []string { return s.evlog }

// Tasks returns all tasks.
func (s *Sim) Tasks() []*Task { return s.tasks }

// Go starts a new task. It may be called by the root before Run or by a running task.
func (s *Sim) Go(name string, f func()) *Task {
	s.mu.Lock()
	t := &Task{ID: s.nHarness, Name: name, Holding: map[string]int{}}
	s.nHarness++
	s.tasks = append(s.tasks, t)
	s.mu.Unlock()
	go func() {
		s.mu.Lock()
		s.goids[goid()] = t
		s.mu.Unlock()
		defer func() {
			if r := recover(); r != nil {
				if _, ok := r.(abortSignal); !ok {
					t.Panic = r
					buf := make([]byte, 16384)
					buf = buf[:runtime.Stack(buf, false)]
					t.Stack = string(buf)
				}
			}
			t.finished = true
		}()
		s.park(t, "start", nil, nil)
		f()
	}()
	return t
}

type abortSignal struct{}

func (s *Sim) current() *Task {
	id := goid()
	s.mu.Lock()
	defer s.mu.Unlock()
	t := s.goids[id]
	if t == nil {
		if id == s.rootGo {
			panic("sched: scheduler goroutine called a parking operation")
		}
		// A goroutine started by the system under test. Its id comes from a number space of its own: when
		// it first gets here relative to the harness creating further tasks is up to the Go runtime, and
		// ids order the pending list.
		s.nExternal++
		t = &Task{ID: 1000 + s.nExternal, Name: fmt.Sprintf("ext%d", s.nExternal), external: true, Holding: map[string]int{}}
		s.tasks = append(s.tasks, t)
		s.goids[id] = t
	}
	return t
}

// Current returns the task of the calling goroutine.
func (s *Sim) Current() *Task { return s.current() }

func (s *Sim) park(t *Task, label string, canGrant func() bool, onGrant func()) {
	r := &request{task: t, label: label, canGrant: canGrant, onGrant: onGrant, ch: make(chan struct{})}
	s.mu.Lock()
	s.pending = append(s.pending, r)
	s.mu.Unlock()
	<-r.ch
	if s.aborted {
		panic(abortSignal{})
	}
}

// Park blocks the calling task until the scheduler grants the request.
func (s *Sim) Park(label string, canGrant func() bool, onGrant func()) {
	s.park(s.current(), label, canGrant, onGrant)
}

// Yield is a scheduling point that is always grantable.
func (s *Sim) Yield(label string) { s.park(s.current(), label, nil, nil) }

// Join parks until all given tasks have finished.
func (s *Sim) Join(ts ...*Task) {
	s.Park("join", func() bool {
		for _, t := range ts {
			if !t.finished {
				return false
			}
		}
		return true
	}, nil)
}

// Finished reports whether the task has returned.
func (t *Task) Finished() bool { return t.finished }

// NewTicker registers a simulated ticker. The creation itself is a scheduling point so that a
// freshly spawned goroutine gets its stable task id before it blocks in select.
func (s *Sim) NewTicker(d time.Duration) *Ticker {
	if d <= 0 {
		panic("non-positive interval for NewTicker")
	}
	tk := &Ticker{C: make(chan time.Time), interval: d}
	s.Park("newticker", nil, func() {
		tk.id = len(s.tickers)
		tk.next = s.now + d
		s.tickers = append(s.tickers, tk)
	})
	return tk
}

// NewTimer registers a simulated one-shot timer (time.Timer): it fires once, d of simulated time from now,
// and is armed again only by ResetTimer.
func (s *Sim) NewTimer(d time.Duration) *Ticker {
	tk := &Ticker{C: make(chan time.Time, 1), interval: d, oneShot: true}
	s.Park("newtimer", nil, func() {
		tk.id = len(s.tickers)
		tk.next = s.now + d
		s.tickers = append(s.tickers, tk)
	})
	return tk
}

// Stop stops the ticker (timer); it reports whether it was armed.
func (tk *Ticker) Stop() bool {
	was := !tk.stopped
	tk.stopped = true
	return was
}

// Reset changes the interval.
func (tk *Ticker) Reset(d time.Duration) { tk.interval = d }

// ResetTimer re-arms a one-shot timer to fire d of simulated time from now; it reports whether it was armed.
func (s *Sim) ResetTimer(tk *Ticker, d time.Duration) bool {
	was := !tk.stopped
	tk.interval = d
	tk.next = s.now + d
	tk.stopped = false
	return was
}

func (s *Sim) draw(n int) int {
	if n <= 1 {
		return 0
	}
	s.ChoicePoints++
	var c int
	if s.tapePos < len(s.cfg.Tape) {
		c = s.cfg.Tape[s.tapePos]
		s.tapePos++
		if c >= n || c < 0 {
			c = 0
		}
	} else {
		if s.cfg.Sticky > 0 && s.rng.Intn(s.cfg.Sticky) != 0 {
			c = 0
		} else {
			c = s.rng.Intn(n)
		}
	}
	s.Choices = append(s.Choices, c)
	return c
}

func (s *Sim) drawTick() bool {
	if s.cfg.TickProb <= 0 {
		return false
	}
	live := false
	for _, tk := range s.tickers {
		if !tk.stopped {
			live = true
		}
	}
	if !live {
		return false
	}
	s.ChoicePoints++
	var c int
	if s.tapePos < len(s.cfg.Tape) {
		c = s.cfg.Tape[s.tapePos]
		s.tapePos++
		if c != 1 {
			c = 0
		}
	} else if s.rng.Float64() < s.cfg.TickProb {
		c = 1
	}
	s.Choices = append(s.Choices, c)
	return c == 1
}

func (s *Sim) tick() {
	var best *Ticker
	for _, tk := range s.tickers {
		if tk.stopped {
			continue
		}
		if best == nil || tk.next < best.next {
			best = tk
		}
	}
	if best == nil {
		return
	}
	if best.next > s.now {
		s.now = best.next
	}
	best.next = s.now + best.interval
	if best.oneShot {
		best.stopped = true
	}
	select {
	case best.C <- time.Unix(0, 0).Add(s.now):
		s.Ticks++
		s.note(-1, fmt.Sprintf("tick%d", best.id))
	default:
		s.TicksDropped++
		s.note(-1, fmt.Sprintf("tickdrop%d", best.id))
	}
}

func (s *Sim) note(task int, label string) {
	h := s.schedHash
	h ^= uint64(task + 2)
	h *= 1099511628211
	for i := 0; i < len(label); i++ {
		h ^= uint64(label[i])
		h *= 1099511628211
	}
	s.schedHash = h
	if s.cfg.LogEvents {
		s.evlog = append(s.evlog, fmt.Sprintf("%d:%s", task, label))
	}
}

// Note lets harness code add an entry to the event digest (used by the determinism self-test).
func (s *Sim) Note(label string) { s.note(-2, label) }

// Run is the scheduler loop. It returns when every task has finished, on deadlock, or when the
// step limit is hit. It must be called on the root goroutine of the bubble.
func (s *Sim) Run() {
	s.rootGo = goid()
	active.Store(s)
	defer active.Store(nil)
	for {
		s.wait()
		s.mu.Lock()
		sort.SliceStable(s.pending, func(i, j int) bool { return s.pending[i].task.ID < s.pending[j].task.ID })
		var grantable []*request
		for _, r := range s.pending {
			if r.canGrant == nil || r.canGrant() {
				grantable = append(grantable, r)
			}
		}
		unfinished := 0
		for _, t := range s.tasks {
			if !t.finished {
				unfinished++
			}
		}
		npending := len(s.pending)
		s.mu.Unlock()
		if s.cfg.OnStep != nil {
			s.cfg.OnStep(s)
		}
		if unfinished == 0 {
			return
		}
		if s.steps >= s.cfg.MaxSteps {
			s.StepLimit = true
			s.abort()
			return
		}
		if len(grantable) == 0 {
			// Only external goroutines parked in select remain runnable through ticks; a tick can
			// help only if all unfinished tasks are external.
			onlyExternal := true
			for _, t := range s.tasks {
				if !t.finished && !t.external {
					onlyExternal = false
				}
			}
			if onlyExternal && npending == 0 {
				// The harness tasks are done; leftover external goroutines are a leak, reported by
				// the caller (bubble exit). Nothing more to schedule.
				return
			}
			s.Deadlock = s.describeDeadlock()
			s.abort()
			return
		}
		s.steps++
		if s.drawTick() {
			s.tick()
			continue
		}
		// Order: the task that ran last first (choice 0 = no context switch), then by task id.
		if s.lastTask != nil {
			for i, r := range grantable {
				if r.task == s.lastTask {
					copy(grantable[1:i+1], grantable[:i])
					grantable[0] = r
					break
				}
			}
		}
		c := s.draw(len(grantable))
		r := grantable[c]
		if s.lastTask != nil && r.task != s.lastTask {
			s.Switches++
		}
		s.lastTask = r.task
		s.mu.Lock()
		for i, p := range s.pending {
			if p == r {
				s.pending = append(s.pending[:i], s.pending[i+1:]...)
				break
			}
		}
		s.mu.Unlock()
		if r.onGrant != nil {
			r.onGrant()
		}
		s.note(r.task.ID, r.label)
		if r.task.external {
			s.LastExternalGrant = atomic.LoadInt64(&s.event)
		}
		close(r.ch)
	}
}

// abort ends the run. Parked goroutines are left parked: releasing them would make goroutines the
// harness does not own (the background worker) unwind through deferred unlocks outside the
// simulation. The bubble then ends with synctest's "blocked goroutines remain" panic, which the
// caller recovers; the goroutines stay blocked for the rest of the process.
func (s *Sim) abort() {
	s.aborted = true
}

// Aborted reports whether the run was aborted (deadlock / step limit).
func (s *Sim) Aborted() bool { return s.aborted }

func (s *Sim) describeDeadlock() string {
	var b strings.Builder
	b.WriteString("deadlock: ")
	s.mu.Lock()
	defer s.mu.Unlock()
	waiting := map[int]string{}
	for _, r := range s.pending {
		waiting[r.task.ID] = r.label
	}
	for _, t := range s.tasks {
		if t.finished {
			continue
		}
		var held []string
		for k, n := range t.Holding {
			if n > 0 {
				held = append(held, fmt.Sprintf("%s*%d", k, n))
			}
		}
		sort.Strings(held)
		w, ok := waiting[t.ID]
		if !ok {
			w = "(blocked outside the scheduler)"
		}
		fmt.Fprintf(&b, "[%s waits %s holds %v] ", t.Name, w, held)
	}
	return b.String()
}

// YieldIfActive is a scheduling point inserted by the instrumenter (lock-file functions of
// package fs). It does nothing outside a simulation or when called by a goroutine the
// scheduler does not run.
func YieldIfActive(label string) {
	s := Active()
	if s == nil {
		return
	}
	if goid() == s.rootGo {
		return
	}
	s.Yield(label)
}
