// Package simrand is a drop-in replacement for crypto/rand. When the harness has installed a
// source, Read takes its bytes from it (so that the hash seed of the database, which decides the
// whole index layout, is a choice of the simulator); otherwise it is crypto/rand.
package simrand

import (
	"crypto/rand"
	"io"
	"math/big"
	"sync"
)

var (
	mu     sync.Mutex
	source func(p []byte)
	// Calls counts Read calls served by the installed source.
	Calls int
)

// SetSource installs (or, with nil, removes) the deterministic byte source.
func SetSource(f func(p []byte)) {
	mu.Lock()
	source = f
	mu.Unlock()
}

type reader struct{}

func (reader) Read(p []byte) (int, error) { return Read(p) }

// Reader mirrors crypto/rand.Reader.
var Reader io.Reader = reader{}

func Read(p []byte) (int, error) {
	mu.Lock()
	f := source
	if f != nil {
		Calls++
		f(p)
		mu.Unlock()
		return len(p), nil
	}
	mu.Unlock()
	return rand.Read(p)
}

func Int(r io.Reader, max *big.Int) (*big.Int, error) { return rand.Int(r, max) }

func Prime(r io.Reader, bits int) (*big.Int, error) { return rand.Prime(r, bits) }

func Text() string { return rand.Text() }
