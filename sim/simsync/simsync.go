// Package simsync is a drop-in replacement for package sync whose Mutex and RWMutex are owned by
// the deterministic scheduler while a simulation is active, and are the real ones otherwise.
// Every other identifier of package sync is re-exported unchanged.
package simsync

import (
	"fmt"
	"sync"

	"verif.local/sim/sched"
)

type (
	WaitGroup = sync.WaitGroup
	Once      = sync.Once
	Cond      = sync.Cond
	Pool      = sync.Pool
	Map       = sync.Map
	Locker    = sync.Locker
)

func NewCond(l Locker) *Cond { return sync.NewCond(l) }

func OnceFunc(f func()) func() { return sync.OnceFunc(f) }

func OnceValue[T any](f func() T) func() T { return sync.OnceValue(f) }

func OnceValues[T1, T2 any](f func() (T1, T2)) func() (T1, T2) { return sync.OnceValues(f) }

// lockNames gives every lock a small deterministic number in order of first use in a simulation.
var (
	lockNamesMu sync.Mutex
	lockNames   = map[interface{}]string{}
	lockSim     *sched.Sim
)

func lockName(s *sched.Sim, p interface{}, kind string) string {
	lockNamesMu.Lock()
	defer lockNamesMu.Unlock()
	if lockSim != s {
		lockSim = s
		lockNames = map[interface{}]string{}
	}
	n, ok := lockNames[p]
	if !ok {
		n = fmt.Sprintf("%s#%d", kind, len(lockNames))
		lockNames[p] = n
	}
	return n
}

// Mutex mirrors sync.Mutex.
type Mutex struct {
	real   sync.Mutex
	locked bool
}

func (m *Mutex) Lock() {
	s := sched.Active()
	if s == nil {
		m.real.Lock()
		return
	}
	name := lockName(s, m, "M")
	t := s.Current()
	s.Park("lock "+name, func() bool { return !m.locked }, func() {
		m.locked = true
		t.Holding[name]++
	})
}

func (m *Mutex) TryLock() bool {
	s := sched.Active()
	if s == nil {
		return m.real.TryLock()
	}
	name := lockName(s, m, "M")
	t := s.Current()
	ok := false
	s.Park("trylock "+name, nil, func() {
		if !m.locked {
			m.locked = true
			t.Holding[name]++
			ok = true
		}
	})
	return ok
}

func (m *Mutex) Unlock() {
	s := sched.Active()
	if s == nil {
		m.real.Unlock()
		return
	}
	if !m.locked {
		panic("sync: unlock of unlocked mutex")
	}
	name := lockName(s, m, "M")
	// The holder need not be the unlocker (legal for sync.Mutex); account on whoever holds it.
	released := false
	cur := s.Current()
	if cur.Holding[name] > 0 {
		cur.Holding[name]--
		released = true
	}
	if !released {
		for _, t := range s.Tasks() {
			if t.Holding[name] > 0 {
				t.Holding[name]--
				break
			}
		}
	}
	m.locked = false
	if s.UnlockYields() {
		s.Yield("unlocked " + name)
	}
}

// RWMutex mirrors sync.RWMutex including writer preference: a pending Lock blocks new readers.
type RWMutex struct {
	real           sync.RWMutex
	writer         bool
	readers        int
	pendingWriters int
}

func (rw *RWMutex) Lock() {
	s := sched.Active()
	if s == nil {
		rw.real.Lock()
		return
	}
	name := lockName(s, rw, "RW")
	t := s.Current()
	rw.pendingWriters++
	s.Park("wlock "+name, func() bool { return !rw.writer && rw.readers == 0 }, func() {
		rw.pendingWriters--
		rw.writer = true
		t.Holding[name+".w"]++
	})
}

func (rw *RWMutex) TryLock() bool {
	s := sched.Active()
	if s == nil {
		return rw.real.TryLock()
	}
	name := lockName(s, rw, "RW")
	t := s.Current()
	ok := false
	s.Park("trywlock "+name, nil, func() {
		if !rw.writer && rw.readers == 0 {
			rw.writer = true
			t.Holding[name+".w"]++
			ok = true
		}
	})
	return ok
}

func (rw *RWMutex) Unlock() {
	s := sched.Active()
	if s == nil {
		rw.real.Unlock()
		return
	}
	if !rw.writer {
		panic("sync: Unlock of unlocked RWMutex")
	}
	name := lockName(s, rw, "RW")
	unaccount(s, name+".w")
	rw.writer = false
	if s.UnlockYields() {
		s.Yield("wunlocked " + name)
	}
}

func (rw *RWMutex) RLock() {
	s := sched.Active()
	if s == nil {
		rw.real.RLock()
		return
	}
	name := lockName(s, rw, "RW")
	t := s.Current()
	s.Park("rlock "+name, func() bool { return !rw.writer && rw.pendingWriters == 0 }, func() {
		rw.readers++
		t.Holding[name+".r"]++
	})
}

func (rw *RWMutex) TryRLock() bool {
	s := sched.Active()
	if s == nil {
		return rw.real.TryRLock()
	}
	name := lockName(s, rw, "RW")
	t := s.Current()
	ok := false
	s.Park("tryrlock "+name, nil, func() {
		if !rw.writer && rw.pendingWriters == 0 {
			rw.readers++
			t.Holding[name+".r"]++
			ok = true
		}
	})
	return ok
}

func (rw *RWMutex) RUnlock() {
	s := sched.Active()
	if s == nil {
		rw.real.RUnlock()
		return
	}
	if rw.readers <= 0 {
		panic("sync: RUnlock of unlocked RWMutex")
	}
	name := lockName(s, rw, "RW")
	unaccount(s, name+".r")
	rw.readers--
	if s.UnlockYields() {
		s.Yield("runlocked " + name)
	}
}

func unaccount(s *sched.Sim, key string) {
	cur := s.Current()
	if cur.Holding[key] > 0 {
		cur.Holding[key]--
		return
	}
	for _, t := range s.Tasks() {
		if t.Holding[key] > 0 {
			t.Holding[key]--
			return
		}
	}
}

type rlocker RWMutex

func (r *rlocker) Lock()   { (*RWMutex)(r).RLock() }
func (r *rlocker) Unlock() { (*RWMutex)(r).RUnlock() }

func (rw *RWMutex) RLocker() Locker { return (*rlocker)(rw) }
