// Package simtime is a drop-in replacement for package time: everything is re-exported unchanged
// (inside a synctest bubble those run on the fake clock) except tickers and timers, which are owned by the
// deterministic scheduler while a simulation is active.
package simtime

import (
	"time"

	"verif.local/sim/sched"
)

type (
	Duration   = time.Duration
	Time       = time.Time
	Month      = time.Month
	Weekday    = time.Weekday
	Location   = time.Location
	ParseError = time.ParseError
)

const (
	Nanosecond  = time.Nanosecond
	Microsecond = time.Microsecond
	Millisecond = time.Millisecond
	Second      = time.Second
	Minute      = time.Minute
	Hour        = time.Hour

	Layout      = time.Layout
	ANSIC       = time.ANSIC
	UnixDate    = time.UnixDate
	RubyDate    = time.RubyDate
	RFC822      = time.RFC822
	RFC822Z     = time.RFC822Z
	RFC850      = time.RFC850
	RFC1123     = time.RFC1123
	RFC1123Z    = time.RFC1123Z
	RFC3339     = time.RFC3339
	RFC3339Nano = time.RFC3339Nano
	Kitchen     = time.Kitchen
	Stamp       = time.Stamp
	StampMilli  = time.StampMilli
	StampMicro  = time.StampMicro
	StampNano   = time.StampNano
	DateTime    = time.DateTime
	DateOnly    = time.DateOnly
	TimeOnly    = time.TimeOnly

	January   = time.January
	February  = time.February
	March     = time.March
	April     = time.April
	May       = time.May
	June      = time.June
	July      = time.July
	August    = time.August
	September = time.September
	October   = time.October
	November  = time.November
	December  = time.December

	Sunday    = time.Sunday
	Monday    = time.Monday
	Tuesday   = time.Tuesday
	Wednesday = time.Wednesday
	Thursday  = time.Thursday
	Friday    = time.Friday
	Saturday  = time.Saturday
)

var (
	UTC   = time.UTC
	Local = time.Local
)

func Now() Time                                   { return time.Now() }
func Since(t Time) Duration                       { return time.Since(t) }
func Until(t Time) Duration                       { return time.Until(t) }
func Sleep(d Duration)                            { time.Sleep(d) }
func After(d Duration) <-chan Time                { return NewTimer(d).C }
func Unix(sec int64, nsec int64) Time             { return time.Unix(sec, nsec) }
func UnixMilli(msec int64) Time                   { return time.UnixMilli(msec) }
func UnixMicro(usec int64) Time                   { return time.UnixMicro(usec) }
func Parse(layout, value string) (Time, error)    { return time.Parse(layout, value) }
func ParseDuration(s string) (Duration, error)    { return time.ParseDuration(s) }
func FixedZone(name string, offset int) *Location { return time.FixedZone(name, offset) }
func LoadLocation(name string) (*Location, error) { return time.LoadLocation(name) }
func Date(year int, month Month, day, hour, min, sec, nsec int, loc *Location) Time {
	return time.Date(year, month, day, hour, min, sec, nsec, loc)
}
func ParseInLocation(layout, value string, loc *Location) (Time, error) {
	return time.ParseInLocation(layout, value, loc)
}

// Timer mirrors time.Timer: owned by the deterministic scheduler while a simulation is active.
type Timer struct {
	C    <-chan Time
	real *time.Timer
	sim  *sched.Ticker
}

func NewTimer(d Duration) *Timer {
	if s := sched.Active(); s != nil {
		st := s.NewTimer(d)
		return &Timer{C: st.C, sim: st}
	}
	rt := time.NewTimer(d)
	return &Timer{C: rt.C, real: rt}
}

// AfterFunc is not simulated (the function would run on a goroutine the scheduler does not own).
func AfterFunc(d Duration, f func()) *Timer {
	rt := time.AfterFunc(d, f)
	return &Timer{C: rt.C, real: rt}
}

func (t *Timer) Stop() bool {
	if t.sim != nil {
		return t.sim.Stop()
	}
	return t.real.Stop()
}

func (t *Timer) Reset(d Duration) bool {
	if t.sim != nil {
		if s := sched.Active(); s != nil {
			return s.ResetTimer(t.sim, d)
		}
		return false
	}
	return t.real.Reset(d)
}

// Ticker mirrors time.Ticker.
type Ticker struct {
	C    <-chan Time
	real *time.Ticker
	sim  *sched.Ticker
}

func NewTicker(d Duration) *Ticker {
	if s := sched.Active(); s != nil {
		st := s.NewTicker(d)
		return &Ticker{C: st.C, sim: st}
	}
	rt := time.NewTicker(d)
	return &Ticker{C: rt.C, real: rt}
}

func (t *Ticker) Stop() {
	if t.sim != nil {
		t.sim.Stop()
		return
	}
	t.real.Stop()
}

func (t *Ticker) Reset(d Duration) {
	if t.sim != nil {
		t.sim.Reset(d)
		return
	}
	t.real.Reset(d)
}

func Tick(d Duration) <-chan Time {
	if d <= 0 {
		return nil
	}
	return NewTicker(d).C
}
