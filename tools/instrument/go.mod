module verif.local/instrument

go 1.18
