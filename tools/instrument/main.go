// Command instrument rewrites a scratch copy of the pogreb module so that the simulator owns its
// locks, tickers and randomness:
//
//	"sync"        -> verif.local/sim/simsync   (all non-test files of the module)
//	"time"        -> verif.local/sim/simtime
//	"crypto/rand" -> verif.local/sim/simrand
//	sched.YieldIfActive(...) before every statement of fs.createLockFile and (*osLockFile).Unlock
//
// Usage: instrument <dir-of-copy> <path-of-sim-module>
package main

import (
	"bytes"
	"fmt"
	"go/ast"
	"go/format"
	"go/parser"
	"go/token"
	"os"
	"path/filepath"
	"strconv"
	"strings"
)

var rewrites = map[string][2]string{
	"sync":        {"verif.local/sim/simsync", "sync"},
	"time":        {"verif.local/sim/simtime", "time"},
	"crypto/rand": {"verif.local/sim/simrand", "rand"},
}

var yieldFuncs = map[string]bool{"createLockFile": true, "Unlock": true}

var knobMmap bool

func main() {
	if len(os.Args) != 3 {
		fmt.Fprintln(os.Stderr, "usage: instrument <dir> <simdir>")
		os.Exit(2)
	}
	root := os.Args[1]
	simdir := os.Args[2]
	nfiles, nimports, nyields := 0, 0, 0
	err := filepath.Walk(root, func(path string, info os.FileInfo, err error) error {
		if err != nil {
			return err
		}
		if info.IsDir() {
			if info.Name() == ".git" || info.Name() == "testdata" {
				return filepath.SkipDir
			}
			return nil
		}
		if !strings.HasSuffix(path, ".go") || strings.HasSuffix(path, "_test.go") {
			return nil
		}
		fset := token.NewFileSet()
		f, err := parser.ParseFile(fset, path, nil, parser.ParseComments)
		if err != nil {
			return err
		}
		changed := false
		for _, imp := range f.Imports {
			p, _ := strconv.Unquote(imp.Path.Value)
			if rw, ok := rewrites[p]; ok {
				imp.Path.Value = strconv.Quote(rw[0])
				if imp.Name == nil {
					imp.Name = ast.NewIdent(rw[1])
				}
				changed = true
				nimports++
			}
		}
		if f.Name.Name == "fs" && filepath.Base(path) == "os_mmap.go" {
			// tuning knob: the initial mapping size (1 GiB) becomes a variable the harness can shrink, so
			// that the remap / mapping-doubling path runs with small files
			for _, d := range f.Decls {
				gd, ok := d.(*ast.GenDecl)
				if !ok || gd.Tok != token.CONST {
					continue
				}
				for _, sp := range gd.Specs {
					vs, ok := sp.(*ast.ValueSpec)
					if ok && len(vs.Names) == 1 && vs.Names[0].Name == "initialMmapSize" && len(vs.Values) == 1 {
						gd.Tok = token.VAR
						vs.Type = ast.NewIdent("int64")
						changed = true
						knobMmap = true
					}
				}
			}
		}
		if f.Name.Name == "fs" {
			hasYield := false
			for _, d := range f.Decls {
				fd, ok := d.(*ast.FuncDecl)
				if !ok || fd.Body == nil || !yieldFuncs[fd.Name.Name] {
					continue
				}
				if fd.Name.Name == "Unlock" {
					// only lock file types
					if fd.Recv == nil || !strings.Contains(strings.ToLower(exprString(fd.Recv.List[0].Type)), "lock") {
						continue
					}
				}
				n := 0
				fd.Body.List = insertYields(fd.Body.List, filepath.Base(path)+":"+fd.Name.Name, &n)
				if n > 0 {
					hasYield = true
					nyields += n
				}
			}
			if hasYield {
				addImport(f, "verif.local/sim/sched", "verifsched")
				changed = true
			}
		}
		if !changed {
			return nil
		}
		var buf bytes.Buffer
		if err := format.Node(&buf, fset, f); err != nil {
			return err
		}
		nfiles++
		return os.WriteFile(path, buf.Bytes(), info.Mode())
	})
	if err != nil {
		fmt.Fprintln(os.Stderr, "instrument:", err)
		os.Exit(2)
	}
	// the setter of the knob (a no-op when the constant was not found in its usual shape)
	knob := "package fs\n\n// VerifSetInitialMmapSize is added by /verif/tools/instrument to the scratch copy only.\nfunc VerifSetInitialMmapSize(n int64) {}\n"
	if knobMmap {
		knob = "package fs\n\n// VerifSetInitialMmapSize is added by /verif/tools/instrument to the scratch copy only.\nfunc VerifSetInitialMmapSize(n int64) { initialMmapSize = n }\n"
	}
	if err := os.WriteFile(filepath.Join(root, "fs", "verif_knobs.go"), []byte(knob), 0644); err != nil {
		fmt.Fprintln(os.Stderr, "instrument:", err)
		os.Exit(2)
	}
	// go.mod
	gm := filepath.Join(root, "go.mod")
	b, err := os.ReadFile(gm)
	if err != nil {
		fmt.Fprintln(os.Stderr, "instrument:", err)
		os.Exit(2)
	}
	b = append(b, []byte("\nrequire verif.local/sim v0.0.0\n\nreplace verif.local/sim => "+simdir+"\n")...)
	if err := os.WriteFile(gm, b, 0644); err != nil {
		fmt.Fprintln(os.Stderr, "instrument:", err)
		os.Exit(2)
	}
	fmt.Printf("instrument: %d files rewritten, %d imports, %d yields\n", nfiles, nimports, nyields)
}

func exprString(e ast.Expr) string {
	switch x := e.(type) {
	case *ast.Ident:
		return x.Name
	case *ast.StarExpr:
		return exprString(x.X)
	case *ast.SelectorExpr:
		return exprString(x.X) + "." + x.Sel.Name
	}
	return ""
}

func yieldStmt(label string) ast.Stmt {
	return &ast.ExprStmt{X: &ast.CallExpr{
		Fun:  &ast.SelectorExpr{X: ast.NewIdent("verifsched"), Sel: ast.NewIdent("YieldIfActive")},
		Args: []ast.Expr{&ast.BasicLit{Kind: token.STRING, Value: strconv.Quote(label)}},
	}}
}

func insertYields(list []ast.Stmt, prefix string, n *int) []ast.Stmt {
	var out []ast.Stmt
	for _, st := range list {
		*n++
		out = append(out, yieldStmt(fmt.Sprintf("%s#%d", prefix, *n)))
		switch x := st.(type) {
		case *ast.IfStmt:
			x.Body.List = insertYields(x.Body.List, prefix, n)
			if eb, ok := x.Else.(*ast.BlockStmt); ok {
				eb.List = insertYields(eb.List, prefix, n)
			}
		case *ast.ForStmt:
			x.Body.List = insertYields(x.Body.List, prefix, n)
		case *ast.RangeStmt:
			x.Body.List = insertYields(x.Body.List, prefix, n)
		case *ast.BlockStmt:
			x.List = insertYields(x.List, prefix, n)
		}
		out = append(out, st)
	}
	return out
}

func addImport(f *ast.File, path, name string) {
	spec := &ast.ImportSpec{Name: ast.NewIdent(name), Path: &ast.BasicLit{Kind: token.STRING, Value: strconv.Quote(path)}}
	for _, d := range f.Decls {
		gd, ok := d.(*ast.GenDecl)
		if ok && gd.Tok == token.IMPORT {
			gd.Specs = append(gd.Specs, spec)
			if !gd.Lparen.IsValid() {
				gd.Lparen = gd.Pos()
				gd.Rparen = gd.End()
			}
			f.Imports = append(f.Imports, spec)
			return
		}
	}
	gd := &ast.GenDecl{Tok: token.IMPORT, Specs: []ast.Spec{spec}}
	f.Decls = append([]ast.Decl{gd}, f.Decls...)
	f.Imports = append(f.Imports, spec)
}
